#!/usr/bin/env python3
"""usage: intake_seed.py <Cxx> <suffix> <srcdir>
Confirms a seeded change delivered by a sub-agent (patch.diff, *_test.go demos, notes.md) with
tools/confirm_seed.sh in a scratch worktree, runs the property's check on it through the overlay
(no change to /repo), and, if confirmed, stores it as /verif/seeded/<Cxx>-<suffix>/."""
import sys, os, re, json, subprocess, shutil, glob
pid, suf, src = sys.argv[1], sys.argv[2], sys.argv[3]
sid = f"{pid}-{suf}"
patch = os.path.join(src, 'patch.diff')
notes = open(os.path.join(src, 'notes.md')).read() if os.path.exists(os.path.join(src, 'notes.md')) else ''
files = re.findall(r'^\+\+\+ b/(\S+)', open(patch).read(), re.M)
demos = sorted(f for f in os.listdir(src) if f.endswith('_test.go'))
def pkgdir_for(demo):
    txt = open(os.path.join(src, demo)).read()
    pk = re.search(r'^package (\w+)', txt, re.M).group(1).replace('_test', '')
    # candidates: dirs mentioned in notes, dirs of changed files
    cands = re.findall(r'(src/[\w/\-]+?)/?[`\s)\'",.:;]', notes) + [os.path.dirname(f) for f in files]
    seen = []
    for c in cands:
        c = c.rstrip('/')
        if c not in seen and os.path.isdir('/repo/' + c):
            seen.append(c)
    # prefer a dir whose package name matches and that is mentioned together with the demo name
    for c in seen:
        gos = glob.glob(f'/repo/{c}/*.go')
        if gos and any(re.search(r'^package ' + pk + r'(_test)?\b', open(g).read(), re.M) for g in gos[:3]):
            if re.search(re.escape(demo) + r'[^\n]{0,200}' + re.escape(c), notes) or re.search(re.escape(c) + r'[^\n]{0,200}' + re.escape(demo), notes) or len(demos) == 1:
                return c
    for c in seen:
        gos = glob.glob(f'/repo/{c}/*.go')
        if gos and any(re.search(r'^package ' + pk + r'(_test)?\b', open(g).read(), re.M) for g in gos[:3]):
            return c
    return None
args = []
for d in demos[:2]:
    pd = pkgdir_for(d)
    if pd is None:
        print(sid, 'RESULT no-package-dir-for', d); sys.exit(1)
    args += [pd, d]
os.makedirs('/tmp/confirm', exist_ok=True)
out = subprocess.run(['/verif/tools/confirm_seed.sh', sid, src] + args, capture_output=True, text=True).stdout.strip().splitlines()
res = out[-1] if out else 'no output'
ok = all(k in res for k in ['demo-unchanged=PASS', 'apply=OK', 'build=OK', 'demo-changed=FAIL', 'pkgtests=PASS'])
env = dict(os.environ, VERIF_WITNESS_PATCH=patch, VERIF_NO_EVIDENCE='1')
chk = subprocess.run(['/verif/bin/skyverif', pid, 'quick'], capture_output=True, text=True, env=env)
det = {0: 'MISSED', 1: 'DETECTED'}.get(chk.returncode, f'rc={chk.returncode}')
first = next((l.strip()[:200] for l in chk.stdout.splitlines() if l.strip().startswith('FAILED')), '')
print(res, '|', det, first)
if ok:
    dst = f'/verif/seeded/{sid}'
    os.makedirs(dst, exist_ok=True)
    for f in ['patch.diff', 'notes.md'] + demos:
        shutil.copy(os.path.join(src, f), dst)
    meta = {"seed": sid, "breaks_property": pid, "files_changed": files,
            "demo": [{"file": args[i + 1], "copy_into": args[i]} for i in range(0, len(args), 2)],
            "needs_to_manifest": "see notes.md (written by the independent sub-agent that produced the change)",
            "origin": "fresh sub-agent given only the property text, a scratch worktree and the site of the earlier seed to avoid; nothing from /verif",
            "confirmed": {"by": "tools/confirm_seed.sh in a scratch worktree of /repo HEAD", "result": res.split('RESULT')[-1].strip()},
            "detected_at_intake": det, "first_rule": first}
    json.dump(meta, open(dst + '/meta.json', 'w'), indent=1)
