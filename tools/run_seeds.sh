#!/bin/bash
# usage: tools/run_seeds.sh [seed-dir ...]   (default: all of seeded/*)
# For each seeded change: apply it to /repo, run the check of the property it breaks
# (and every other claimed check when ALL=1), undo it.  Prints DETECTED / MISSED.
cd "$(dirname "$0")/.."
seeds=("$@"); [ ${#seeds[@]} -eq 0 ] && seeds=(seeded/C*/)
claimed=$(python3 -c "import json;print(' '.join(c['property_id'] for c in json.load(open('MANIFEST.json'))['checks']))")
git -C /repo diff --quiet || { echo "/repo has uncommitted changes"; exit 2; }
for s in "${seeds[@]}"; do
  s=${s%/}; id=$(basename $s); prop=$(python3 -c "import json;print(json.load(open('$s/meta.json'))['breaks_property'])")
  git -C /repo apply "$PWD/$s/patch.diff" || { echo "$id APPLY-FAILED"; continue; }
  props=$prop; [ -n "$ALL" ] && props=$claimed
  hit=""
  for p in $props; do
    case " $claimed " in *" $p "*) ;; *) continue;; esac
    out=$(VERIF_NO_EVIDENCE=1 ./check $p ${TIER:-quick} 2>&1); rc=$?
    if [ $rc -eq 1 ]; then hit="$hit $p($(echo "$out" | grep -c '^VIOLATION'))"; fi
    if [ $rc -ge 2 ]; then hit="$hit $p(rc=$rc)"; fi
  done
  git -C /repo checkout -- .
  case " $claimed " in *" $prop "*) own=claimed;; *) own=unclaimed;; esac
  if [ -n "$hit" ]; then echo "$id DETECTED by:$hit"; else echo "$id MISSED ($prop $own)"; fi
done
