#!/bin/bash
# usage: tools/run_seeds_overlay.sh   -- every seeded change and reverted repair, through the overlay (no change to /repo), own property only
cd "$(dirname "$0")/.."
for f in seeded/C*/patch.diff witness/C*/*.diff; do
  id=$(echo $f | sed -E 's#^(seeded|witness)/(C[0-9]+).*#\2#')
  VERIF_WITNESS_PATCH="$PWD/$f" VERIF_NO_EVIDENCE=1 bin/skyverif $id quick >/dev/null 2>&1; rc=$?
  case $rc in 1) ;; *) echo "$f rc=$rc";; esac
done
echo "overlay sweep done"
