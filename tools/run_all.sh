#!/bin/bash
# runs every claimed check (tier $1, default quick) in parallel (4 at a time), writing evidence
cd "$(dirname "$0")/.."
tier=${1:-quick}
ids=$(python3 -c "import json;print(' '.join(c['property_id'] for c in json.load(open('MANIFEST.json'))['checks']))")
fail=0
printf '%s\n' $ids | xargs -P ${PAR:-4} -I{} sh -c './check {} '$tier' > /tmp/runall.{}.log 2>&1; echo "{} rc=$?"' | sort
grep -l "^VIOLATION" /tmp/runall.*.log 2>/dev/null
