#!/usr/bin/env python3
"""Regenerates MANIFEST.json from tools/claims.json (one entry per claimed property)
and the not_applicable table; validates against the schema when jsonschema is present."""
import json, sys, os
here = os.path.dirname(os.path.dirname(os.path.abspath(__file__)))
claims = json.load(open(os.path.join(here, 'tools', 'claims.json')))
props = [json.loads(l) for l in open(os.path.join(here, 'properties.jsonl'))]
checks = []
na = []
for p in props:
    pid = p['id']
    c = claims['claimed'].get(pid)
    if c:
        checks.append({
            "property_id": pid,
            "quick_cmd": "./check %s quick" % pid,
            "thorough_cmd": "./check %s thorough" % pid,
            "evidence_file": "evidence/%s.json" % pid,
            "replay_cmd_template": "./check %s quick   # replay file {path} names the failing rule and construct" % pid,
            "engine": "skyverif",
            "level_claimed": {"category": c.get("level", "other"), "text": c["text"], "design_ref": "DESIGN.md §4 " + pid},
            "level_note": c["note"],
            "technique": c["technique"],
        })
    else:
        na.append({"property_id": pid, "reason": claims['not_applicable'].get(pid, "no sound static rule built yet for this property in this framework; not claimed")})
m = {
    "version": 1,
    "setup_cmd": "cd checker && GOFLAGS=-mod=mod GOPROXY=off GOSUMDB=off GOTOOLCHAIN=local go build -o ../bin/skyverif .",
    "hooks": {"guard": "verif", "enable": "none needed: every check is static and reads /repo's working tree as it is (no instrumentation, no build tag)",
              "baseline_off_cmd": "cd /repo && go build ./... && go test -vet=off -count=1 ./...", "source_commits": [], "add_only": True},
    "engines": [{"name": "skyverif", "path": "checker/", "serves_properties": [c["property_id"] for c in checks],
                 "kind_free_text": "repository-specific static analyser: go/packages + go/types + go/ssa + CHA/VTA call graph (x/tools v0.29.0); guard facts on dominators, loop-quantified facts, ownership tables, interval arithmetic, nil contract, pairing rules, codec schema translation validation, route-table extraction"}],
    "checks": checks,
    "notes": claims.get("notes", ""),
    "not_applicable": na,
}
json.dump(m, open(os.path.join(here, 'MANIFEST.json'), 'w'), indent=1)
try:
    import jsonschema
    jsonschema.validate(m, json.load(open('/root/.vp/MANIFEST.schema.json')))
    print("MANIFEST.json valid:", len(checks), "claimed,", len(na), "not applicable")
except ImportError:
    print("written (jsonschema not available for validation)")
