#!/bin/bash
# usage: tools/run_benign.sh <dir-with-*.diff> ...   runs ALL claimed checks (one process, overlay) on each behaviour-preserving edit;
# prints one line per edit: OK, or the properties that raised an alarm (false alarms to analyse)
cd "$(dirname "$0")/.."
for d in "$@"; do
  for f in "$d"/*.diff; do
    [ -s "$f" ] || continue
    out=$(VERIF_WITNESS_PATCH="$f" ${SKYVERIF:-bin/skyverif} multi all 2>&1); rc=$?
    bad=$(echo "$out" | grep "^MULTI" | grep -v "rc=0" | tr '\n' ' ')
    if [ $rc -eq 3 ]; then echo "$f NOT-APPLICABLE"; elif [ -z "$bad" ]; then echo "$f OK"; else echo "$f ALARM $bad"; echo "$out" | grep "FAILED" | cut -c1-400 | sed 's/^/      /'; fi
  done
done
