#!/bin/bash
# usage: confirm_seed.sh <id> <srcdir-of-seed (patch.diff + demo)> <pkgdir> <demo-file> [<pkgdir2> <demo-file2>]
# Confirms a seeded change in a scratch worktree of /repo: demo passes on the unchanged tree,
# the change applies and builds, the demo fails with it, the package's existing tests still pass.
export GOFLAGS=-mod=mod GOPROXY=off GOSUMDB=off GOTOOLCHAIN=local; unset GOWORK
id=$1; src=$2; pkg=$3; demo=$4; pkg2=$5; demo2=$6
wt=/tmp/confirm/wt-$id
git -C /repo worktree remove --force $wt 2>/dev/null
git -C /repo worktree add --detach $wt HEAD >/dev/null 2>&1 || { echo "$id RESULT worktree-failed"; exit 1; }
cd $wt
cp $src/$demo $pkg/zz_seed_demo_test.go
[ -n "$pkg2" ] && cp $src/$demo2 $pkg2/zz_seed_demo2_test.go
tests=$(grep -h "^func Test" $pkg/zz_seed_demo_test.go | sed 's/func \(Test[A-Za-z0-9_]*\).*/\1/' | paste -sd'|')
res=""
if go test -vet=off -count=1 -run "^($tests)\$" ./$pkg >/tmp/confirm/$id.unchanged.log 2>&1; then res="$res demo-unchanged=PASS"; else res="$res demo-unchanged=FAIL"; fi
if git apply $src/patch.diff 2>/tmp/confirm/$id.apply.log; then res="$res apply=OK"; else res="$res apply=FAIL"; fi
if go build ./src/... ./cmd/... >/tmp/confirm/$id.build.log 2>&1; then res="$res build=OK"; else res="$res build=FAIL"; fi
if go test -vet=off -count=1 -run "^($tests)\$" ./$pkg >/tmp/confirm/$id.changed.log 2>&1; then res="$res demo-changed=PASS"; else res="$res demo-changed=FAIL"; fi
rm -f $pkg/zz_seed_demo_test.go $pkg2/zz_seed_demo2_test.go
# existing tests of the package with the change (known environment failures tolerated)
go test -vet=off -count=1 -timeout 20m -skip 'TestErrMissingSignatureRecreateDB|TestIsWritable|TestServiceNewAddresses|TestPexAddPeers' ./$pkg >/tmp/confirm/$id.pkg.log 2>&1 && res="$res pkgtests=PASS" || res="$res pkgtests=FAIL"
cd /; git -C /repo worktree remove --force $wt
echo "$id RESULT$res"
