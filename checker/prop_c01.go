package main

import (
	"fmt"
	"go/token"
	"go/types"
	"strings"

	"golang.org/x/tools/go/ssa"
)

func init() { props["C01"] = checkC01 }

const foldCoinsIn = "fold[acc=0; util/mathutil.AddUint64(acc, $0[i].Body.Coins)#0]"
const foldCoinsOut = "fold[acc=0; util/mathutil.AddUint64(acc, $1[i].Body.Coins)#0]"

// shared with C02/C03/C04: the chain of calls from block execution down to the
// coin/hour spending checks.
func ruleBlockVerificationChain(r *Run, rule string) {
	r.RequireOnSuccess(rule, "transaction.verifyTxnHardConstraints",
		req("coins in == coins out checked against the outputs this txn creates", "ok(coin.VerifyTransactionCoinsSpending($2, coin.CreateUnspents($1, $0)))"),
		req("hours spending checked at the head time", "ok(coin.VerifyTransactionHoursSpending($1.Time, $2, coin.CreateUnspents($1, $0)))"),
		req("no duplicate created outputs", "!coin.UxArray.HasDupes(coin.CreateUnspents($1, $0))"),
		req("signed txn: well-formedness", "when: $3 == 1 => ok(coin.Transaction.Verify($0))"),
		req("signed txn: input signatures match spent outputs", "when: $3 == 1 => ok(coin.Transaction.VerifyInputSignatures($0, $2))"),
	)
	r.RequireOnSuccess(rule, "transaction.VerifyBlockTxnConstraints",
		req("block txns are checked as signed", "ok(transaction.verifyTxnHardConstraints($0, $1, $2, 1))"))
	r.RequireOnSuccess(rule, "visor.Blockchain.verifyBlockTxnHardConstraints",
		req("delegates to transaction.VerifyBlockTxnConstraints", "ok(transaction.VerifyBlockTxnConstraints($2, $3.Block.Head, $4))"))
	r.RequireOnSuccess(rule, "visor.Blockchain.VerifyBlockTxnConstraints",
		req("inputs are looked up in the unspent pool (all must exist)", "ok(iface:visor/blockdb.UnspentPooler.GetArray(visor.Blockchain.Unspent($0), $1, $2.In))"),
		req("head read", "ok(visor.Blockchain.Head($0, $1))"),
		req("verified against the current head and the looked-up inputs", "ok(visor.Blockchain.verifyBlockTxnHardConstraints($0, $1, $2, visor.Blockchain.Head($0, $1)#0, iface:visor/blockdb.UnspentPooler.GetArray(visor.Blockchain.Unspent($0), $1, $2.In)#0))"))
	r.RequireOnSuccess(rule, "visor.Blockchain.processBlock",
		req("non-genesis: every txn processed", "when: 0 < visor.Blockchain.Len($0, $1)#0 => ok(visor.Blockchain.processTransactions($0, $1, $2.Block.Body.Transactions))"))
	// processTransactions: every transaction passes VerifyBlockTxnConstraints unless arbitrating
	fn := r.fn(rule, "visor.Blockchain.processTransactions")
	if fn != nil {
		ff := r.P.Facts(fn)
		exits, facts := ff.SuccessFacts()
		n := 0
		for i, ex := range exits {
			// the empty-block exit under Arbitrating is the publisher path
			if _, m := matchAny([]string{"$0.cfg.Arbitrating"}, facts[i]); m {
				continue
			}
			n++
			_, m := matchAny([]string{"forall(i < len(*)): visor.Blockchain.VerifyBlockTxnConstraints($0, $1, *[i]) != nil => $0.cfg.Arbitrating"}, facts[i])
			r.Check(rule, "visor.Blockchain.processTransactions: a txn failing the hard constraints rejects the block unless arbitrating", r.P.Pos(ex.Pos), m,
				"success return reachable although VerifyBlockTxnConstraints failed for some transaction in non-arbitrating mode")
		}
		if n == 0 {
			r.Fail(rule, "visor.Blockchain.processTransactions: success exits", r.P.Pos(fn.Pos()), "no non-trivial success exit found")
		}
	}
	r.RequireAtCall(rule, "visor.Blockchain.ExecuteBlock", "iface:visor.chainStore.AddBlock", 1,
		req("block stored only after processBlock accepted it", "ok(visor.Blockchain.processBlock($0, $1, *))"))
	// what is stored is the block processBlock returned (in arbitrating mode the filtered copy), never the input
	if fn := r.P.Fn("visor.Blockchain.ExecuteBlock"); fn != nil {
		for _, cs := range r.CallSites(fn, "iface:visor.chainStore.AddBlock") {
			t := r.argTerm(cs, 1)
			r.Check(rule, "ExecuteBlock stores the block returned by processBlock", r.P.Pos(cs.Pos()), glob("visor.Blockchain.processBlock($0, $1, *)#0", t), "AddBlock argument is "+t)
		}
	}
}

func checkC01(r *Run) {
	r.Explain = "C01: (R1) VerifyTransactionCoinsSpending succeeds only with sum(in)==sum(out), both sums built solely through the checked AddUint64 fold; (R2) every path from block execution to the store passes that check with the inputs looked up in the unspent pool and the outputs the transaction creates; (R3) zero-coin/overflow output checks; (R4) ownership: the unspent-pool bucket is written only by pool.put/pool.delete, called only from Unspents.ProcessBlock, reached only from block execution; (R5) what ProcessBlock deletes are the looked-up inputs and what it puts are CreateUnspents of the block's transactions, with Coins copied field-to-field; (R6) no raw + or * on Coins-derived values in the consensus packages; (R7) genesis is the only coin-creating output."
	r.NotDec = "that the stored UTXO sum equals the genesis volume for a concrete history (a value); bolt transaction atomicity (trusted)"
	ruleMathutilIdioms(r, "C01-R1")
	ruleChainConfigPassthrough(r, "C01-R2")

	// R1
	r.RequireOnSuccess("C01-R1", "coin.VerifyTransactionCoinsSpending",
		req("input sum accumulated with overflow check over every input", "forall(i < len($0)): ok(util/mathutil.AddUint64("+foldCoinsIn+", $0[i].Body.Coins))"),
		req("output sum accumulated with overflow check over every output", "forall(i < len($1)): ok(util/mathutil.AddUint64("+foldCoinsOut+", $1[i].Body.Coins))"),
		req("not (in < out): no coins created", foldCoinsOut+" <= "+foldCoinsIn),
		req("not (in > out): no coins destroyed", foldCoinsIn+" <= "+foldCoinsOut),
	)
	checkPure(r, "C01-R1", "coin.VerifyTransactionCoinsSpending")
	// R2
	ruleBlockVerificationChain(r, "C01-R2")
	// R3 (the two coin atoms of Transaction.verify)
	var r3 []Req
	for _, q := range txnVerifyReqs() {
		if strings.Contains(q.Name, "zero-coin") || strings.Contains(q.Name, "overflow") {
			r3 = append(r3, q)
		}
	}
	r.RequireOnSuccess("C01-R3", "coin.Transaction.verify", r3...)
	r.Min("C01-R3", 2)

	// R4 ownership
	ruleUnspentPoolOwnership(r, "C01-R4")
	// R5 provenance
	ruleProcessBlockProvenance(r, "C01-R5")
	// R6 arithmetic on coins
	ruleNoRawCoinArith(r, "C01-R6")
	// R7 genesis
	r.RequireOnSuccess("C01-R7", "visor.Blockchain.processBlock",
		req("a genesis block is refused once the chain is non-empty", "when: 0 < visor.Blockchain.Len($0, $1)#0 => !visor.Blockchain.isGenesisBlock($0, $1, $2.Block)#0"))
	r.RequireOnSuccess("C01-R7", "coin.NewGenesisBlock", req("single coin-creating output pushed", "ok(coin.Transaction.PushOutput(*, $0, $1, $1))"))
}

func ruleUnspentPoolOwnership(r *Run, rule string) {
	writes := r.P.BucketWrites()
	r.Units["bucket write sites (module)"] = len(writes)
	n := 0
	for _, w := range writes {
		if strings.HasPrefix(w.Bucket, "?") {
			r.Check(rule, "bucket write with unresolved bucket in "+FnName(w.Fn), r.P.Pos(w.Site.Pos()), false, "bucket argument is not a package-level bucket variable: "+w.Bucket)
			continue
		}
		if w.Bucket != "visor/blockdb.UnspentPoolBkt" {
			continue
		}
		n++
		name := FnName(w.Fn)
		ok := name == "visor/blockdb.pool.put" || name == "visor/blockdb.pool.delete" || (name == "visor/blockdb.CreateBuckets" && w.Op == "visor/dbutil.CreateBuckets")
		r.Check(rule, "UnspentPoolBkt written by "+name, r.P.Pos(w.Site.Pos()), ok, "the unspent pool bucket may only be written by pool.put / pool.delete (and created by CreateBuckets)")
	}
	if n < 3 {
		r.Fail(rule, "UnspentPoolBkt writers", "", fmt.Sprintf("expected >= 3 write sites of UnspentPoolBkt, found %d", n))
	}
	// enumeration is complete: the bucket walk of pool.getAll appends every decoded output (nothing is filtered)
	if ga := r.fn(rule, "visor/blockdb.pool.getAll"); ga != nil {
		nApp := 0
		for _, f := range r.P.ModFns {
			if f.Parent() != ga {
				continue
			}
			ff := r.P.Facts(f)
			var appBlk *ssa.BasicBlock
			for _, b := range f.Blocks {
				for _, in := range b.Instrs {
					if st, ok := in.(*ssa.Store); ok {
						if c, isC := st.Val.(*ssa.Call); isC && calleeName(&c.Call) == "append" {
							appBlk = b
							nApp++
						}
					}
				}
			}
			for _, e := range ff.Exits() {
				if e.Kind != ExitSuccess || e.Ret == nil {
					continue
				}
				r.Check(rule, "visor/blockdb.pool.getAll: every output read from the bucket is appended to the result", r.P.Pos(e.Ret.Pos()), appBlk != nil && (appBlk == e.Ret.Block() || appBlk.Dominates(e.Ret.Block())),
					"an entry of the unspent bucket can be skipped: the enumerated set is not the stored set")
			}
		}
		r.Check(rule, "visor/blockdb.pool.getAll: append site found", r.P.Pos(ga.Pos()), nApp == 1, fmt.Sprint(nApp))
	}
	// the two accessors are unconditional: every output handed to put is written under its hash, every hash handed
	// to delete is removed (no output is silently dropped or kept)
	r.RequireOnSuccess(rule, "visor/blockdb.pool.put",
		req("the output encodes", "ok(visor/blockdb.encodeUxOut($3))"),
		req("and is written to the pool bucket under the given hash", "ok(visor/dbutil.PutBucketValue($1, visor/blockdb.UnspentPoolBkt, $2[:], *))"))
	r.RequireOnSuccess(rule, "visor/blockdb.pool.delete",
		req("the hash is deleted from the pool bucket", "ok(visor/dbutil.Delete($1, visor/blockdb.UnspentPoolBkt, $2[:]))"))
	r.checkCallers(rule, "visor/blockdb.pool.put", "visor/blockdb.Unspents.ProcessBlock")
	r.checkCallers(rule, "visor/blockdb.pool.delete", "visor/blockdb.Unspents.ProcessBlock")
	r.checkCallers(rule, "visor/blockdb.Unspents.ProcessBlock", "visor/blockdb.Blockchain.AddBlock")
	r.checkCallers(rule, "visor/blockdb.Blockchain.AddBlock", "visor.Blockchain.ExecuteBlock")
	r.checkCallers(rule, "visor.Blockchain.ExecuteBlock", "visor.Visor.executeSignedBlockUnsafe", "visor.Visor.CreateBlock", "visor.Visor.createBlock", "visor.Visor.CreateAndExecuteBlock", "visor.addGenesisBlock", "visor.addGenesisBlockToVisor")
}

func ruleProcessBlockProvenance(r *Run, rule string) {
	const pb = "visor/blockdb.Unspents.ProcessBlock"
	inputs := "fold[acc=nil; append(acc, $2.Block.Body.Transactions[i].In)]"
	created := "fold[acc=nil; append(acc, coin.CreateUnspents($2.Block.Head, $2.Block.Body.Transactions[i]))]"
	got := "visor/blockdb.Unspents.GetArray($0, $1, " + inputs + ")"
	gotW := "visor/blockdb.Unspents.GetArray($0, $1, *)" // nested occurrences are depth-abbreviated
	createdW := "fold[acc=nil; append(acc, coin.CreateUnspents($2.Block.Head, *))]"
	r.RequireOnSuccess(rule, pb,
		req("spent outputs are looked up for ALL inputs of ALL transactions of the block", "ok("+got+")"),
		req("exactly the looked-up outputs are deleted, by their hash", "forall(i < len("+got+"#0)): ok(visor/blockdb.pool.delete($0.pool, $1, coin.UxOut.Hash("+gotW+"#0[i])))"),
		req("exactly CreateUnspents(head, txn) of every transaction are inserted", "forall(i < len("+created+")): ok(visor/blockdb.pool.put($0.pool, $1, make([]cipher.SHA256, len("+createdW+"))[i], "+createdW+"[i]))"),
		req("no created output was already in the pool", "forall(i < len(make([]cipher.SHA256, len("+created+")))): !visor/blockdb.Unspents.Contains($0, $1, make([]cipher.SHA256, len("+createdW+"))[i])#0"),
	)
	r.RequireStore(rule, pb, "put key = hash of the created output", "make([]cipher.SHA256, len("+created+"))[i] := coin.UxOut.Hash("+createdW+"[i])")
	const cu = "coin.CreateUnspents"
	mk := "*" // the literal under construction, however the compiler materialises it
	r.RequireStore(rule, cu, "the literal is stored at index i of an array with one slot per txn.Out element", "make(coin.UxArray, len($1.Out))[i] := local:complit", "make(coin.UxArray, len($1.Out))[i] := {*}")
	r.RequireStore(rule, cu, "created Coins = txn.Out[i].Coins", mk+".Body.Coins := $1.Out[i].Coins")
	r.RequireStore(rule, cu, "created Hours = txn.Out[i].Hours", mk+".Body.Hours := $1.Out[i].Hours")
	r.RequireStore(rule, cu, "created Address = txn.Out[i].Address", mk+".Body.Address := $1.Out[i].Address")
	r.RequireStore(rule, cu, "created SrcTransaction = txn hash (null for genesis)", mk+".Body.SrcTransaction := φ(coin.Transaction.Hash($1)|zero)", mk+".Body.SrcTransaction := φ(zero|coin.Transaction.Hash($1))")
	r.RequireStore(rule, cu, "created Head.Time = block time", mk+".Head.Time := $0.Time", "*.Head := {BkSeq: $0.BkSeq, Time: $0.Time}")
	r.RequireStore(rule, cu, "created Head.BkSeq = block seq", mk+".Head.BkSeq := $0.BkSeq", "*.Head := {BkSeq: $0.BkSeq, Time: $0.Time}")
	// one output per txn.Out element: the loop ranges over len(txn.Out) and returns the made array
	fn := r.P.Fn(cu)
	if fn != nil {
		ff := r.P.Facts(fn)
		for _, ex := range ff.Exits() {
			if ex.Ret != nil && len(ex.Ret.Results) == 1 {
				t := ff.Term(ex.Ret.Results[0])
				r.Check(rule, cu+": returns one output per txn.Out element", r.P.Pos(ex.Pos), t == "make(coin.UxArray, len($1.Out))", "returns "+t)
			}
		}
	}
}

// ruleNoRawCoinArith: no unchecked + - * on a value derived from a Coins field in
// the consensus packages (sums must go through mathutil).  Reviewed exceptions are
// keyed by function + expression, never by line.
func ruleNoRawCoinArith(r *Run, rule string) {
	pkgs := map[string]bool{"coin": true, "transaction": true, "visor": true, "visor/blockdb": true, "util/fee": true, "visor/historydb": true}
	reviewed := map[string]string{
		"coin.UxOut.CoinHours|($0.Body.Coins / 1000000)": "division cannot overflow",
		"coin.UxOut.CoinHours|($0.Body.Coins % 1000000)": "remainder cannot overflow",
	}
	_ = reviewed
	n := 0
	for _, fn := range r.P.ModFns {
		root := fn
		for root.Parent() != nil {
			root = root.Parent()
		}
		if root.Pkg == nil || !pkgs[shortPkg(root.Pkg.Pkg.Path())] {
			continue
		}
		if shortPkg(root.Pkg.Pkg.Path()) == "transaction" && !strings.HasPrefix(strings.ToLower(root.Name()), "verify") {
			continue // spend construction is C12's domain
		}
		ff := r.P.Facts(fn)
		for _, b := range fn.Blocks {
			for _, in := range b.Instrs {
				bo, ok := in.(*ssa.BinOp)
				if !ok {
					continue
				}
				switch bo.Op {
				case token.ADD, token.SUB, token.MUL:
				default:
					continue
				}
				if bt, ok := bo.Type().Underlying().(*types.Basic); !ok || bt.Info()&types.IsInteger == 0 {
					continue
				}
				x, y := ff.Term(bo.X), ff.Term(bo.Y)
				if !isCoinAmount(x) && !isCoinAmount(y) {
					continue
				}
				n++
				expr := ff.Term(bo)
				if discharged, why := coinArithSafe(ff, bo); discharged {
					r.Check(rule, FnName(fn)+": "+trunc(expr, 100), r.P.Pos(bo.Pos()), true, why)
				} else {
					r.Check(rule, FnName(fn)+": "+trunc(expr, 100), r.P.Pos(bo.Pos()), false, "raw "+bo.Op.String()+" on a coin amount without overflow check: "+trunc(expr, 160))
				}
			}
		}
	}
	r.Units["coin arithmetic sites"] = n
}

// coinArithSafe discharges a raw arithmetic site with facts from E3.
func coinArithSafe(ff *FuncFacts, bo *ssa.BinOp) (bool, string) {
	x, y := ff.Term(bo.X), ff.Term(bo.Y)
	if bo.Op == token.SUB {
		for _, a := range ff.Must(bo.Block()) {
			if a.S == y+" <= "+x || a.S == y+" < "+x {
				return true, "guarded by " + a.S
			}
		}
	}
	return false, ""
}

// isCoinAmount: the term denotes a coin amount (a Coins field or a sum of them), not
// a product with time (coin-hours arithmetic is C31/C03).
func isCoinAmount(t string) bool {
	if !strings.Contains(t, ".Coins") {
		return false
	}
	return !strings.Contains(t, "MultUint64") && !strings.Contains(t, "Hours") && !strings.Contains(t, " / ") && !strings.Contains(t, " % ")
}

// ruleChainConfigPassthrough: visor.New builds the Blockchain with exactly the configured public key and
// arbitration flag (arbitrating mode silently drops invalid transactions of received blocks, so it must not
// be switched on by anything but the explicit configuration).
func ruleChainConfigPassthrough(r *Run, rule string) {
	fn := r.fn(rule, "visor.New")
	if fn == nil {
		return
	}
	fs := r.fieldStores(fn)
	r.Check(rule, "visor.New: BlockchainConfig.Arbitrating is Config.Arbitrating as given", r.P.Pos(fn.Pos()), fs["Arbitrating"] == "$0.Arbitrating", fs["Arbitrating"])
	r.Check(rule, "visor.New: BlockchainConfig.Pubkey is Config.BlockchainPubkey as given", r.P.Pos(fn.Pos()), fs["Pubkey"] == "$0.BlockchainPubkey", fs["Pubkey"])
	r.RequireOnSuccess(rule, "visor.Config.Verify", req("a publisher must arbitrate", "when: $0.IsBlockPublisher => $0.Arbitrating", "*IsBlockPublisher*"))
}
