package main

import (
	"embed"
	"strings"
)

// The rule sources themselves: a function whose qualified name occurs in them is an anchor of some rule.
//
//go:embed prop_*.go rules.go own.go nilc.go pairing.go panics.go routes.go routes_ref.go codec.go arith.go bounds.go
var ruleSources embed.FS

var ruleText string

// helpers whose short name collides with an anchored function of another package but which no rule names
var notAnchored = map[string]bool{"visor/blockdb.Blockchain." + "processBlock": true}

func anchoredName(name string) bool {
	if notAnchored[name] {
		return false
	}
	if ruleText == "" {
		ents, _ := ruleSources.ReadDir(".")
		var sb strings.Builder
		for _, e := range ents {
			b, _ := ruleSources.ReadFile(e.Name())
			sb.Write(b)
		}
		ruleText = sb.String()
	}
	if strings.Contains(ruleText, name) {
		return true
	}
	// rules also spell methods without the package path of the receiver (e.g. built by concatenation):
	// be conservative for short names that occur as "<type>.<method>"
	// names assembled by concatenation in the rules: "<pkg>" + ".Type.method"
	base := name
	if i := strings.LastIndex(base, "/"); i >= 0 {
		base = base[i+1:]
	}
	if j := strings.Index(base, "."); j >= 0 && strings.Contains(ruleText, base[j:]) {
		return true
	}
	if i := strings.LastIndex(name, "/"); i >= 0 {
		if strings.Contains(ruleText, "\""+name[i+1:]+"\"") {
			return true
		}
	}
	return false
}
