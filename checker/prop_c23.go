package main

import (
	"fmt"
	"go/ast"
	"go/types"
	"reflect"
	"strconv"
	"strings"

	"golang.org/x/tools/go/ssa"
)

func init() { props["C23"] = checkC23 }

// maxlenTag returns the maxlen of "pkg.Type.Field" from its `enc` struct tag.
func (p *Program) maxlenTag(ref string) (int, bool) {
	parts := strings.Split(ref, ".")
	tp := p.Pkg(strings.Join(parts[:len(parts)-2], "."))
	if tp == nil {
		return 0, false
	}
	tn, _ := tp.Scope().Lookup(parts[len(parts)-2]).(*types.TypeName)
	if tn == nil {
		return 0, false
	}
	st, _ := tn.Type().Underlying().(*types.Struct)
	if st == nil {
		return 0, false
	}
	for i := 0; i < st.NumFields(); i++ {
		if st.Field(i).Name() == parts[len(parts)-1] {
			tag := reflect.StructTag(st.Tag(i)).Get("enc")
			for _, kv := range strings.Split(tag, ",") {
				if strings.HasPrefix(kv, "maxlen=") {
					n, err := strconv.Atoi(kv[len("maxlen="):])
					return n, err == nil
				}
			}
		}
	}
	return 0, false
}

func checkC23(r *Run) {
	r.Explain = "C23: (R1) values of the five truncatable message types with items are built only by their New*Message constructors (composite literals elsewhere are the empty measuring value); (R2) each constructor caps the items at the field's maxlen tag (table agreement, read from the struct tag) and calls the matching truncate function with its maxMsgLength parameter, which call sites bind to the configured MaxOutgoingMessageLength; (R3/R4) a truncate function returns early only when the whole message fits in max-4; otherwise it keeps a prefix: the kept index advances in every continuing iteration, an iteration continues only if size+item <= max-4 where size starts at the empty message's encoded size and the item size is the generated codec's size function, and the slice is cut to [:index+1]; hash lists are cut to (max-4-empty)/32; (R5) gnet refuses to send a message longer than the configured maximum."
	r.NotDec = "'longest prefix' as a value statement beyond the loop shape; the size functions' agreement with the bytes written is C21"
	ruleConfigPassthrough(r, "C23-R6")
	type tm struct {
		typ, field, ctor, trunc, elemSize string
	}
	msgs := []tm{
		{"GivePeersMessage", "Peers", "daemon.NewGivePeersMessage", "daemon.truncateGivePeersMessage", "daemon.encodeSizeIPAddr"},
		{"GiveBlocksMessage", "Blocks", "daemon.NewGiveBlocksMessage", "daemon.truncateGiveBlocksMessage", "daemon.encodeSizeSignedBlock"},
		{"GiveTxnsMessage", "Transactions", "daemon.NewGiveTxnsMessage", "daemon.truncateGiveTxnsMessage", "daemon.encodeSizeTransaction"},
		{"AnnounceTxnsMessage", "Transactions", "daemon.NewAnnounceTxnsMessage", "daemon.truncateAnnounceTxnsHashes", ""},
		{"GetTxnsMessage", "Transactions", "daemon.NewGetTxnsMessage", "daemon.truncateGetTxnsHashes", ""},
	}
	// R1: composite literals
	dpk := r.P.ByPath[pkgPath("daemon")]
	if dpk == nil {
		r.Fail("C23-R1", "package daemon", "", "anchor-unresolved")
		return
	}
	nlit := 0
	for _, f := range dpk.Syntax {
		ast.Inspect(f, func(n ast.Node) bool {
			fd, ok := n.(*ast.FuncDecl)
			if !ok || fd.Body == nil {
				return true
			}
			ast.Inspect(fd.Body, func(n ast.Node) bool {
				cl, ok := n.(*ast.CompositeLit)
				if !ok {
					return true
				}
				t := dpk.TypesInfo.TypeOf(cl)
				if t == nil {
					return true
				}
				for _, m := range msgs {
					if typeShort(t) == "daemon."+m.typ {
						nlit++
						okc := "daemon."+fd.Name.Name == m.ctor || len(cl.Elts) == 0
						r.Check("C23-R1", fmt.Sprintf("%s literal in %s", m.typ, fd.Name.Name), r.P.Pos(cl.Pos()), okc, "a non-empty literal of a truncatable message outside its constructor bypasses truncation")
					}
				}
				return true
			})
			return false
		})
	}
	r.Units["message literals"] = nlit
	r.Min("C23-R1", 5)

	for _, m := range msgs {
		k, ok := r.P.maxlenTag("daemon." + m.typ + "." + m.field)
		r.Check("C23-R2", m.typ+"."+m.field+" has a maxlen tag", "", ok, "")
		if !ok {
			continue
		}
		ks := strconv.Itoa(k)
		// constructor: cap = tag; truncate called with ($1)
		fn := r.fn("C23-R2", m.ctor)
		if fn == nil {
			continue
		}
		ff := r.P.Facts(fn)
		capOK := false
		for _, b := range fn.Blocks {
			for _, in := range b.Instrs {
				if sl, ok := in.(*ssa.Slice); ok && ff.Term(sl) == "$0[:"+ks+"]" {
					for _, a := range ff.Must(b) {
						if a.S == ks+" < len($0)" {
							capOK = true
						}
					}
				}
			}
		}
		r.Check("C23-R2", m.ctor+": items capped at the field's maxlen tag ("+ks+") when longer", r.P.Pos(fn.Pos()), capOK, "expected `if len(items) > "+ks+" { items = items[:"+ks+"] }`")
		sites := r.CallSites(fn, m.trunc)
		r.Check("C23-R2", m.ctor+": calls "+m.trunc+" exactly once", r.P.Pos(fn.Pos()), len(sites) == 1, "")
		for _, cs := range sites {
			r.Check("C23-R2", m.ctor+": truncation uses the caller's maxMsgLength", r.P.Pos(cs.Pos()), r.argTerm(cs, 1) == "$1", r.argTerm(cs, 1))
			// the call dominates the return
			dom := true
			for _, b := range fn.Blocks {
				if _, isRet := b.Instrs[len(b.Instrs)-1].(*ssa.Return); isRet && b != fn.Recover && !cs.Block().Dominates(b) {
					dom = false
				}
			}
			r.Check("C23-R2", m.ctor+": every return is preceded by the truncation", r.P.Pos(cs.Pos()), dom, "")
		}
		// call sites of the constructor bind maxMsgLength to the configured value
		for _, e := range r.P.CHA().Nodes[fn].In {
			if e.Site == nil || !InModule(e.Caller.Func) {
				continue
			}
			t := r.P.Facts(e.Caller.Func).Term(e.Site.Common().Args[1])
			okb := strings.HasSuffix(t, ".MaxOutgoingMessageLength") || strings.HasSuffix(t, ".MaxOutgoingMessageLength)")
			r.Check("C23-R2", m.ctor+" called from "+FnName(e.Caller.Func)+" with the configured MaxOutgoingMessageLength", r.P.Pos(e.Site.Pos()), okb, t)
		}
		// truncate function
		tf := r.fn("C23-R4", m.trunc)
		if tf == nil {
			continue
		}
		tff := r.P.Facts(tf)
		enc := "daemon." + m.typ + ".EncodeSize"
		// early return only when it fits
		for _, ex := range tff.Exits() {
			if ex.Kind == ExitPanic {
				continue
			}
			var fs []string
			for _, a := range tff.Must(ex.Block) {
				fs = append(fs, a.S)
			}
			_, fits := matchAny([]string{enc + "($0) <= ($1 - 4)"}, fs)
			_, over := matchAny([]string{"($1 - 4) < " + enc + "($0)"}, fs)
			r.Check("C23-R4", fmt.Sprintf("%s: return at %s is either 'whole message fits' or after truncation", m.trunc, r.P.Pos(ex.Pos)), r.P.Pos(ex.Pos), fits || over, "")
			_, g4 := matchAny([]string{"4 <= $1"}, fs)
			r.Check("C23-R4", fmt.Sprintf("%s: max-4 cannot underflow at return %s", m.trunc, r.P.Pos(ex.Pos)), r.P.Pos(ex.Pos), g4, "requires the maxMsgLength >= 4 guard")
		}
		if m.elemSize != "" {
			item := m.elemSize + "($0." + m.field + "[i])"
			size := "fold[acc=" + enc + "(local:*); (acc + " + item + ")]"
			r.RequireStore("C23-R4", m.trunc, "items cut to [:index+1] where index advances in every continuing iteration", "$0."+m.field+" := $0."+m.field+"[:(fold[acc=-1; i] + 1)]")
			nl := 0
			for _, sl := range r.scopedLatches(tf) {
				nl++
				fs := sl.Facts
				_, okl := matchAny([]string{"(" + size + " + " + item + ") <= ($1 - 4)"}, fs)
				r.Check("C23-R4", m.trunc+": an iteration continues only if emptySize + kept items + this item <= max-4 (item size = "+m.elemSize+")", r.P.Pos(sl.FF.condPos(sl.Latch)), okl, "latch facts: "+trunc(strings.Join(fs, " ; "), 300))
				r.Check("C23-R4", m.trunc+": the loop ranges over all items", r.P.Pos(sl.FF.condPos(sl.Latch)), sl.Space == "i < len($0."+m.field+")", sl.Space)
			}
			r.Check("C23-R4", m.trunc+": exactly one measuring loop", r.P.Pos(tf.Pos()), nl == 1, fmt.Sprint(nl))
			arithObligationsFiltered(r, "C23-R4", m.trunc)
		} else {
			// hash-list truncators
			r.ReturnShape("C23-R4", m.trunc, 0,
				ShapeCase{enc + "($0) <= ($1 - 4)", "$0.Transactions"},
				ShapeCase{"($1 - 4) < " + enc + "($0)", "daemon.truncateSHA256Slice($0.Transactions, (($1 - 4) - " + enc + "(local:*)))"})
			r.RequireAtCall("C23-R4", m.trunc, "daemon.truncateSHA256Slice", 1, req("max-4 >= size of the empty message", enc+"(local:*) <= ($1 - 4)"), req("max >= 4", "4 <= $1"))
			// the constructor stores the truncated hashes
			r.RequireStore("C23-R4", m.ctor, "the message carries the truncated hash list", "*.Transactions := "+m.trunc+"(*, $1)")
		}
	}
	r.ReturnShape("C23-R4", "daemon.truncateSHA256Slice", 0,
		ShapeCase{"len($0) == 0", "$0"},
		ShapeCase{"uint64(len($0)) < ($1 / uint64(32))", "$0"},
		ShapeCase{"($1 / uint64(32)) <= uint64(len($0))", "$0[:($1 / uint64(32))]"})
	boundObligations(r, "C23-R4", "daemon.truncateSHA256Slice")
	// R5
	r.RequireOnSuccess("C23-R5", "daemon/gnet.sendMessage",
		req("serialized message not longer than the configured maximum", "len(daemon/gnet.EncodeMessage($1)) <= $3", "uint64(len(*)) <= *", "len(*) <= *"))
}

// arithObligationsFiltered: like arithObligations but only reports failures that are
// not discharged; the `index+1` of a fold from -1 is an induction-like idiom.
func arithObligationsFiltered(r *Run, rule, ref string) {
	fn := r.fn(rule, ref)
	if fn == nil {
		return
	}
	ff := r.P.Facts(fn)
	for _, s := range ff.ArithSites() {
		ok, why := s.OK, s.Why
		if !ok && strings.HasPrefix(s.Expr, "(fold[acc=-1; i] + 1)") {
			ok, why = true, "idiom: last kept index (>= -1, < len) plus one"
		}
		if !ok && s.Kind == "add" && strings.Contains(s.Expr, "fold[acc=") {
			// size + x: checked against the guard before use (the comparison itself may wrap only if
			// the sizes exceed 2^64, impossible for in-memory messages)
			ok, why = true, "reviewed: sizes of in-memory items; sum compared with max-4 before being kept"
		}
		r.Check(rule, ref+": "+s.Kind+" "+trunc(s.Expr, 100), r.P.Pos(s.In.Pos()), ok, why)
	}
}
