package main

import (
	"fmt"
	"go/types"
	"sort"
	"strings"
)

func init() {
	props["C21"] = checkC21
	propLevel["C21"] = "translation_validation"
}

func checkC21(r *Run) {
	r.Explain = "C21 (translation validation): for each generated codec, the wire schema Ref(T) is derived from the Go type and its enc tags following the reference encoder's rules (field order, unexported/'-' skipped, u32 length prefixes, omitempty only last, maxlen per field), and the ASTs of encodeSizeT, encodeTToBuffer, decodeT, decodeTExact and the allocating wrapper are walked along Ref(T): every schema item must be implemented by statements of exactly the shape that realises it, with the reference's guards in the reference's order (buffer-size guard first; length read, underflow check, maxlen == tag, allocate only afterwards; array guards; exact = consumed == len). Any statement outside that language is 'undecided' and fails."
	r.NotDec = "the reference encoder's own conformance to its comment-spec (Ref re-implements its three walkers); byte-level behaviour of the Encoder/Decoder primitives beyond their length guards"
	nFiles, fields, samples := codecObligations(r, "C21", nil)
	r.Units["codec files"] = nFiles
	if nFiles < 29 {
		r.Fail("C21-R0", "codec discovery", "", fmt.Sprintf("found %d generated codec files, hand-confirmed minimum is 29", nFiles))
	}
	r.Extra["programs"] = nFiles * 5
	r.Extra["disagreements_checked"] = fields
	r.Extra["samples"] = samples
	r.Units["schema items walked"] = fields
	ruleExactDecoders(r, "C21-R6")
	// R5 primitive guards of the decoder
	for _, m := range []struct {
		name string
		n    string
	}{{"Uint8", "1"}, {"Uint16", "2"}, {"Uint32", "4"}, {"Uint64", "8"}, {"Bool", "1"}} {
		r.RequireOnSuccess("C21-R5", "cipher/encoder.Decoder."+m.name, req("at least "+m.n+" byte(s) left", m.n+" <= len($0.Buffer)"))
	}
	for _, m := range []string{"Int8", "Int16", "Int32", "Int64"} {
		u := "Uint" + strings.TrimPrefix(m, "Int")
		r.RequireOnSuccess("C21-R5", "cipher/encoder.Decoder."+m, req("delegates to the unsigned reader", "ok(cipher/encoder.Decoder."+u+"($0))"))
	}
	r.RequireOnSuccess("C21-R5", "cipher/encoder.Decoder.Bool", req("only 0 or 1 is a bool", "$0.Buffer[0] == 0", "$0.Buffer[0] == 1", "$0.Buffer[0] <= 1", "*Buffer[0]*"))
	boundObligations(r, "C21-R5", "cipher/encoder.Decoder.Uint8", "cipher/encoder.Decoder.Uint16", "cipher/encoder.Decoder.Uint32", "cipher/encoder.Decoder.Uint64", "cipher/encoder.Decoder.Bool")
	// the reference's tag-parsing constants are the ones Ref uses
	for _, c := range []struct{ fn, lit string }{{"cipher/encoder.TagOmitempty", `",omitempty"`}, {"cipher/encoder.TagMaxLen", `",maxlen="`}} {
		fn := r.fn("C21-R4", c.fn)
		if fn == nil {
			continue
		}
		found := false
		for _, b := range fn.Blocks {
			for _, in := range b.Instrs {
				if strings.Contains(in.String(), c.lit) {
					found = true
				}
			}
		}
		r.Check("C21-R4", c.fn+" parses "+c.lit+" (the constant Ref(T) uses)", r.P.Pos(fn.Pos()), found, "")
	}
}

// codecObligations runs the translation-validation rules on every generated codec whose type name passes
// keep (nil = all) under the given rule-name prefix; returns files checked, schema items walked, samples.
func codecObligations(r *Run, pre string, keep func(tname string) bool) (int, int, []interface{}) {
	files := r.P.findCodecFiles()
	sort.Slice(files, func(i, j int) bool {
		return r.P.Pos(files[i].file.Pos()) < r.P.Pos(files[j].file.Pos())
	})
	nFiles := 0
	var samples []interface{}
	fields := 0
	nonCanonical := 0
	for _, cf := range files {
		fname := strings.TrimPrefix(r.P.Fset.Position(cf.file.Pos()).Filename, r.P.RepoDir+"/")
		if cf.typ == nil || cf.name == "" {
			r.Fail(pre+"-R0", fname+": codec type", fname, "undecided: cannot determine the encoded type")
			continue
		}
		qual := func(p *types.Package) string {
			if p == cf.pkg.Types {
				return ""
			}
			return p.Name()
		}
		items, err := refSchema(cf.typ, "obj", qual)
		if err != nil {
			r.Fail(pre+"-R0", fname+": reference schema", fname, "undecided: "+err.Error())
			continue
		}
		var ss []string
		for _, it := range items {
			ss = append(ss, it.String())
		}
		tname := shortPkg(cf.pkg.PkgPath) + "." + cf.name
		if keep != nil && !keep(tname) {
			continue
		}
		nFiles++
		samples = append(samples, map[string]interface{}{"type": tname, "file": fname, "schema": ss})
		run := func(rule, what string, fnName string, f func(c *codecCheck)) {
			c := &codecCheck{p: r.P, cf: cf}
			fd := cf.funcs[fnName]
			if fd == nil {
				r.Fail(rule, tname+": "+fnName, fname, "anchor-unresolved: generated function missing")
				return
			}
			f(c)
			fields += c.nItems
			detail := what + " matches Ref(" + tname + ")"
			if len(c.fails) > 0 {
				detail = strings.Join(c.fails, " | ")
			}
			r.Check(rule, tname+": "+fnName+" "+what, r.P.Pos(fd.Pos()), len(c.fails) == 0, trunc(detail, 600))
		}
		run(pre+"-R1", "size", "encodeSize"+cf.name, func(c *codecCheck) { c.checkSize(cf.funcs["encodeSize"+cf.name], items) })
		run(pre+"-R1", "encoding", "encode"+cf.name+"ToBuffer", func(c *codecCheck) { c.checkEncode(cf.funcs["encode"+cf.name+"ToBuffer"], items) })
		run(pre+"-R1", "allocating wrapper", "encode"+cf.name, func(c *codecCheck) { c.checkEncodeWrapper(cf.funcs["encode"+cf.name]) })
		run(pre+"-R2", "decoding", "decode"+cf.name, func(c *codecCheck) { c.checkDecode(cf.funcs["decode"+cf.name], items) })
		run(pre+"-R2", "exact decoding", "decode"+cf.name+"Exact", func(c *codecCheck) { c.checkExact(cf.funcs["decode"+cf.name+"Exact"]) })
		// no other function in the file
		for name := range cf.funcs {
			switch name {
			case "encodeSize" + cf.name, "encode" + cf.name, "encode" + cf.name + "ToBuffer", "decode" + cf.name, "decode" + cf.name + "Exact":
			default:
				r.Fail(pre+"-R0", tname+": unexpected function "+name, fname, "undecided: function outside the generator's set")
			}
		}
		// R3 canonicity
		canon := true
		var walk func(its []cItem)
		walk = func(its []cItem) {
			for _, it := range its {
				if it.Omit {
					canon = false
				}
				walk(it.Elem)
			}
		}
		walk(items)
		if !canon {
			nonCanonical++
			r.Note("%s has an omitempty tail: the empty tail has two encodings on the wire (absent / length 0 is never produced by the encoder; decoding an explicit zero length yields the same value) — documented, reported not armed", tname)
		}
	}
	r.Units["codecs with omitempty tail"] += nonCanonical
	return nFiles, fields, samples
}
