package main

import (
	"fmt"
	"go/token"
	"golang.org/x/tools/go/ssa"
	"strings"
)

func init() { props["C28"] = checkC28 }

// reviewed exceptions: rule|function|callee-or-expression prefix -> reason
var c28Reviewed = map[string]string{
	"nil|visor.confirmedTxnsGetter.getTxnsHashes|visor/historydb.HistoryDB.GetTransaction":               "the hash was just read from the address->transactions index, which HistoryDB.ParseBlock writes in the same db transaction as the transaction record (C07-R1 ownership); both reads happen in one read transaction",
	"nil|visor.unconfirmedTxnsGetter.getTransaction|visor.UnconfirmedTransactionPool.Get":                "the hash was enumerated from the unconfirmed bucket by getTxnsHashes in the same read transaction (Visor.GetTransactions runs both inside one db.View)",
	"nil|visor.rebuildHistoryDB$1|visor.Blockchain.GetSignedBlockBySeq":                                  "seq ranges over 0..head; the chain is gap-free by C04-R3 (seq == head+1 on every append)",
	"nil|visor.Visor.GetSignedBlocksSince$1|visor.Blockchain.GetSignedBlockBySeq":                        "seq ranges over (since, head]; the chain is gap-free by C04-R3, read in one db.View",
	"bounds|api.balanceHandler$1|iface:api.Gatewayer.GetBalanceOfAddresses":                              "Visor.GetBalanceOfAddresses returns exactly one BalancePair per requested address (built by index over addrs)",
	"bounds|api.newCreatedTransactionFuzzy|make([]api.CreatedTransactionInput, len($0.In))":              "inputs is nil or built one-per-input from GetArray/GetUxOuts(txn.In) by Visor.VerifyTxnVerbose (NewTransactionInputs over uxa)",
	"bounds|api.walletTransactionsHandler$1|iface:api.Gatewayer.GetWalletUnconfirmedTransactionsVerbose": "GetUnconfirmedTransactionsVerbose returns the two slices in parallel (one inputs slice per transaction)",
}

// c28MustReviewed: (outermost caller -> callee) pairs of package api that call a helper containing an
// explicit panic, each with the reason the panic cannot be driven by a request.
var c28MustReviewed = map[string]string{
	"api.CreatedTransaction.ToTransaction -> coin.Transaction.Hash": "used by the CLI only (cli/transaction.go), not reachable from any handler; Hash panics only if Serialize fails",
	"api.NewCreatedTransaction -> coin.Transaction.Hash":            "the transaction was built by transaction.Create / the visor (within the encoder's maxlen limits), Serialize cannot fail",
	"api.newCreatedTransactionFuzzy -> coin.Transaction.Hash":       "test helper for fuzzy comparison, same argument as NewCreatedTransaction",
	"api.injectTransactionHandler -> coin.Transaction.Hash":         "the transaction was just produced by DeserializeTransactionHex, which enforces the same maxlen limits Serialize checks",
	"api.HostCheck -> api.hostCheck":                                "hostCheck panics while the middleware is constructed (bad configured host), not per request",
	"api.newServerMux -> api.hostCheck":                             "same: construction time",
	"api.create -> api.newServerMux":                                "start-up: missing GUI directory panics before the server listens",
}

func checkC28(r *Run) {
	r.Explain = "C28: (R1) nil contract over the whole module: every function that can return (nil pointer, nil error) — found by scanning returns, propagated through tail calls and interfaces (CHA) — is enumerated, and every dereference of such a result must be dominated by a nil test, be impossible because nil is returned only for a nil argument and the site passes an address, or be in the reviewed table; (R2) no explicit panic / log.Panic / Fatal statement in the HTTP handler layer (package api); panic statements reachable deeper (VTA) are counted and reported, not decided; (R3) every slice/index expression in package api is in bounds (difference-bound reasoning) or in the reviewed table; (R4) every call from package api into a helper that itself contains an explicit panic (Must-style) is a reviewed (caller, callee) pair whose panic cannot be driven by a request; (R6) every mutex Lock/RLock in a function reachable (VTA) from a handler is released on every path to an exit of that function (deferred or explicit unlock on the same receiver); (R7) the sign endpoint verifies the unsigned transaction (one signature slot per input) before wallet.SignTransaction indexes the slots; (R5) package api has no unchecked type assertion and no integer division by a value not shown non-zero."
	r.NotDec = "hangs other than leaked mutexes (channel waits, slow operations), dropped connections not caused by panics; the 140-odd invariant panics below the handler layer (crypto length preconditions, visor invariants) are reported in evidence, not discharged; run-time panics from nil-map writes; type assertions and divisions below the handler layer"
	sites, nCalls, prods := r.P.NilContractSites()
	r.Units["(nil,nil) producers"] = len(prods)
	r.Units["call sites of producers"] = nCalls
	if len(prods) < 20 {
		r.Fail("C28-R1", "instance-count producers", "", fmt.Sprintf("only %d (nil,nil) producers found, hand-confirmed minimum 20", len(prods)))
	}
	used := map[string]bool{}
	for _, s := range sites {
		if s.Guarded {
			r.Pass("C28-R1", FnName(s.Fn)+": "+s.Callee+" result dereferenced", r.P.Pos(s.Deref.Pos()), s.Why)
			continue
		}
		callee := s.Callee
		if i := strings.Index(callee, " (via"); i > 0 {
			callee = callee[:i]
		}
		key := "nil|" + FnName(s.Fn) + "|" + callee
		if why, ok := c28Reviewed[key]; ok {
			used[key] = true
			r.Pass("C28-R1", FnName(s.Fn)+": "+callee+" result dereferenced without nil check (reviewed)", r.P.Pos(s.Deref.Pos()), "reviewed: "+why)
			continue
		}
		r.Check("C28-R1", FnName(s.Fn)+": "+callee+" result dereferenced without nil check", r.P.Pos(s.Deref.Pos()), false, s.Why)
	}
	r.Check("C28-R1", "nil contract: all dereferences of (nil,nil)-capable results are guarded, argument-safe or reviewed", "", true, fmt.Sprintf("%d producers, %d call sites, %d unguarded dereferences triaged", len(prods), nCalls, len(sites)))
	r.Extra["nilnil_producers"] = prods

	// R2
	roots := r.P.httpHandlerRoots()
	r.Units["http handler closures"] = len(roots)
	if len(roots) < 50 {
		r.Fail("C28-R2", "instance-count handlers", "", fmt.Sprintf("only %d handler functions found in package api", len(roots)))
	}
	psites, nreach := r.P.reachablePanics(roots)
	r.Units["module functions reachable from handlers (VTA)"] = nreach
	deep := 0
	for _, s := range psites {
		name := FnName(s.Fn)
		if strings.HasPrefix(name, "api.") {
			r.Check("C28-R2", name+": explicit panic in the handler layer: "+trunc(s.Desc, 80), r.P.Pos(s.In.Pos()), false, "reachable via "+trunc(s.Path, 200))
		} else {
			deep++
		}
	}
	r.Check("C28-R2", "no explicit panic statement in package api on any handler path", "", true, fmt.Sprintf("%d handler roots", len(roots)))
	r.Units["panic statements reachable below the handler layer (reported, not decided)"] = deep
	// positive control for the zero-count rule: the engine must see known panic sites elsewhere
	ctl := 0
	if fn := r.P.Fn("cipher.MustNewPubKey"); fn != nil {
		ctl = len(r.P.explicitPanics(fn))
	}
	r.Check("C28-R2", "positive control: the panic detector finds the panic in cipher.MustNewPubKey", "", ctl >= 1, "")

	// R3
	tot := 0
	for _, fn := range r.P.ModFns {
		name := FnName(fn)
		if !strings.HasPrefix(name, "api.") {
			continue
		}
		for _, s := range r.P.Facts(fn).BoundSites() {
			tot++
			if s.OK {
				r.Pass("C28-R3", name+": "+trunc(s.Expr, 70), r.P.Pos(s.In.Pos()), s.Why)
				continue
			}
			rev := ""
			for k, why := range c28Reviewed {
				parts := strings.SplitN(k, "|", 3)
				if parts[0] == "bounds" && parts[1] == name && strings.HasPrefix(s.Expr, parts[2]) {
					rev = why
					used[k] = true
				}
			}
			if rev != "" {
				r.Pass("C28-R3", name+": "+trunc(s.Expr, 70)+" (reviewed)", r.P.Pos(s.In.Pos()), "reviewed: "+rev)
			} else {
				r.Check("C28-R3", name+": "+trunc(s.Expr, 70), r.P.Pos(s.In.Pos()), false, s.Why)
			}
		}
	}
	r.Units["bounds obligations in package api"] = tot
	r.Check("C28-R3", "bounds: every slice/index expression of package api is discharged or reviewed", "", tot >= 300, fmt.Sprintf("%d obligations", tot))
	// R4: calls from the handler layer into helpers that panic on their own arguments/state (Must-style):
	// each (caller, callee) pair is in the reviewed table or reported
	nMust := 0
	usedMust := map[string]bool{}
	for _, fn := range r.P.ModFns {
		name := FnName(fn)
		if !strings.HasPrefix(name, "api.") {
			continue
		}
		for _, b := range fn.Blocks {
			for _, in := range b.Instrs {
				ci, ok := in.(ssa.CallInstruction)
				if !ok {
					continue
				}
				cal := ci.Common().StaticCallee()
				if cal == nil || !InModule(cal) || cal.Blocks == nil || r.P.hasRecover(cal) {
					continue
				}
				ps := r.P.explicitPanics(cal)
				if len(ps) == 0 {
					continue
				}
				nMust++
				root := fn
				for root.Parent() != nil {
					root = root.Parent()
				}
				key := FnName(root) + " -> " + FnName(cal)
				if rev, ok := c28MustReviewed[key]; ok {
					usedMust[key] = true
					r.Pass("C28-R4", key+" (reviewed)", r.P.Pos(ci.Pos()), "reviewed: "+rev)
				} else {
					r.Check("C28-R4", key+": the handler layer calls a helper that panics ("+trunc(ps[0].Desc, 60)+")", r.P.Pos(ci.Pos()), false, "a request-dependent argument can crash the node; return an error instead or add the pair to the reviewed table with the reason")
				}
			}
		}
	}
	for k := range c28MustReviewed {
		if !usedMust[k] {
			r.Note("reviewed exception no longer needed: must|" + k)
		}
	}
	r.Units["api calls into directly panicking helpers"] = nMust
	// R5: unchecked type assertions and integer divisions by a non-constant in package api
	nTA, nDiv := 0, 0
	for _, fn := range r.P.ModFns {
		name := FnName(fn)
		if !strings.HasPrefix(name, "api.") {
			continue
		}
		ff := r.P.Facts(fn)
		for _, b := range fn.Blocks {
			for _, in := range b.Instrs {
				switch x := in.(type) {
				case *ssa.TypeAssert:
					if !x.CommaOk {
						nTA++
						r.Check("C28-R5", name+": unchecked type assertion "+trunc(ff.Term(x), 70), r.P.Pos(x.Pos()), false, "x.(T) without the comma-ok form panics when the dynamic type differs")
					}
				case *ssa.BinOp:
					if (x.Op == token.QUO || x.Op == token.REM) && isIntegerValue(x) {
						if _, isConst := x.Y.(*ssa.Const); isConst {
							continue
						}
						nDiv++
						iv := ff.rangeOf(x.Y, b, 0)
						nz := iv.Lo.Sign() > 0 || iv.Hi.Sign() < 0
						if !nz {
							for _, a := range ff.Must(b) {
								t := ff.Term(x.Y)
								if a.S == t+" != 0" || a.S == "0 < "+t {
									nz = true
								}
							}
						}
						r.Check("C28-R5", name+": divisor "+trunc(ff.Term(x.Y), 60)+" is non-zero", r.P.Pos(x.Pos()), nz, fmt.Sprintf("integer division by a value not shown non-zero panics (divisor range %s)", iv))
					}
				}
			}
		}
	}
	// R6: a request that leaves a mutex locked makes later requests hang: every Lock/RLock in a function
	// reachable from a handler is released on every path to an exit of that function
	parent := reachableFrom(r.P.VTA(), roots, func(f *ssa.Function) bool { return !InModule(f) })
	nLocks := 0
	for _, fn := range r.P.ModFns {
		if _, ok := parent[fn]; !ok {
			continue
		}
		n, leaks := r.P.lockBalance(fn)
		nLocks += n
		for _, l := range leaks {
			r.Check("C28-R6", FnName(fn)+": "+l.Kind+" of "+l.Recv+" on every exit", r.P.Pos(l.Lock.Pos()), false, "the lock taken here is still held at the return at "+r.P.Pos(l.Exit)+": the next writer (and every request behind it) blocks for ever")
		}
	}
	r.Units["lock acquisitions in handler-reachable functions"] = nLocks
	r.Check("C28-R6", "every lock acquired on a request path is released on all exits of the acquiring function", "", nLocks >= 30, fmt.Sprintf("%d acquisitions checked", nLocks))
	// R7: preconditions of deep helpers that index without re-checking: wallet.SignTransaction indexes
	// txn.Sigs by input position, so the sign endpoint must have verified the unsigned transaction's shape
	// (len(Sigs) == len(In), via the unsigned hard/soft verification) before handing it over
	for _, f := range r.P.ModFns {
		if !strings.HasPrefix(FnName(f), "visor.Visor.WalletSignTransaction") {
			continue
		}
		if len(r.CallSites(f, "wallet.SignTransaction")) == 0 {
			continue
		}
		r.RequireAtCallFn("C28-R7", f, "wallet.SignTransaction", 1,
			req("the transaction handed to the signer passed the unsigned well-formedness verification first", "ok(iface:visor.Blockchainer.VerifySingleTxnSoftHardConstraints(*, params.UserVerifyTxn, 2))"),
			req("user constraints verified", "ok(transaction.VerifySingleTxnUserConstraints(*))"))
	}
	r.RequireOnSuccess("C28-R7", "coin.Transaction.verify", req("one signature slot per input (what SignTransaction relies on)", "len($0.Sigs) == len($0.In)"))
	// R8: SignInput panics on a key that is not a valid secret key (MustSignHash).  The entries of a watch-only
	// (xpub) wallet carry no secret, so every wallet-layer function that signs with entry secrets refuses xpub
	// wallets before it reaches SignInput
	nSign := 0
	for _, f := range r.P.ModFns {
		name := FnName(f)
		if !strings.HasPrefix(name, "wallet.") && !strings.HasPrefix(name, "visor.") {
			continue
		}
		ff := r.P.Facts(f)
		for _, cs := range r.CallSites(f, "coin.Transaction.SignInput") {
			nSign++
			var fs []string
			for _, a := range ff.MustAt(cs) {
				fs = append(fs, a.S)
			}
			_, m := matchAny([]string{"iface:wallet.Wallet.Type*(*) != \"xpub\"", "\"xpub\" != iface:wallet.Wallet.Type*(*)"}, fs)
			r.Check("C28-R8", name+": signs with wallet entry secrets only after refusing watch-only (xpub) wallets", r.P.Pos(cs.Pos()), m,
				"an xpub wallet's entries hold a null secret key: SignInput -> MustSignHash panics (\"Invalid secret key\") inside the request handler")
		}
	}
	r.Check("C28-R8", "wallet-layer signing sites", "", nSign >= 2, fmt.Sprint(nSign))
	r.Units["unchecked type assertions in package api"] = nTA
	r.Units["non-constant integer divisions in package api"] = nDiv
	r.Pass("C28-R5", "package api scanned for unchecked type assertions and divisions", "", fmt.Sprintf("%d assertions, %d divisions", nTA, nDiv))
	for k := range c28Reviewed {
		if !used[k] {
			r.Note("reviewed exception no longer needed: %s", k)
		}
	}
}
