package main

import (
	"fmt"
	"strings"
)

func init() { props["C28"] = checkC28 }

// reviewed exceptions: rule|function|callee-or-expression prefix -> reason
var c28Reviewed = map[string]string{
	"nil|visor.confirmedTxnsGetter.getTxnsHashes|visor/historydb.HistoryDB.GetTransaction": "the hash was just read from the address->transactions index, which HistoryDB.ParseBlock writes in the same db transaction as the transaction record (C07-R1 ownership); both reads happen in one read transaction",
	"nil|visor.unconfirmedTxnsGetter.getTransaction|visor.UnconfirmedTransactionPool.Get":   "the hash was enumerated from the unconfirmed bucket by getTxnsHashes in the same read transaction (Visor.GetTransactions runs both inside one db.View)",
	"nil|visor.rebuildHistoryDB$1|visor.Blockchain.GetSignedBlockBySeq":                      "seq ranges over 0..head; the chain is gap-free by C04-R3 (seq == head+1 on every append)",
	"nil|visor.Visor.GetSignedBlocksSince$1|visor.Blockchain.GetSignedBlockBySeq":            "seq ranges over (since, head]; the chain is gap-free by C04-R3, read in one db.View",
	"bounds|api.balanceHandler$1|iface:api.Gatewayer.GetBalanceOfAddresses":                  "Visor.GetBalanceOfAddresses returns exactly one BalancePair per requested address (built by index over addrs)",
	"bounds|api.newCreatedTransactionFuzzy|make([]api.CreatedTransactionInput, len($0.In))":  "inputs is nil or built one-per-input from GetArray/GetUxOuts(txn.In) by Visor.VerifyTxnVerbose (NewTransactionInputs over uxa)",
	"bounds|api.walletTransactionsHandler$1|iface:api.Gatewayer.GetWalletUnconfirmedTransactionsVerbose": "GetUnconfirmedTransactionsVerbose returns the two slices in parallel (one inputs slice per transaction)",
}

func checkC28(r *Run) {
	r.Explain = "C28: (R1) nil contract over the whole module: every function that can return (nil pointer, nil error) — found by scanning returns, propagated through tail calls and interfaces (CHA) — is enumerated, and every dereference of such a result must be dominated by a nil test, be impossible because nil is returned only for a nil argument and the site passes an address, or be in the reviewed table; (R2) no explicit panic / log.Panic / Fatal statement in the HTTP handler layer (package api); panic statements reachable deeper (VTA) are counted and reported, not decided; (R3) every slice/index expression in package api is in bounds (difference-bound reasoning) or in the reviewed table."
	r.NotDec = "hangs, dropped connections not caused by panics; the 140-odd invariant panics below the handler layer (crypto length preconditions, visor invariants) are reported in evidence, not discharged; run-time panics from nil maps / type assertions"
	sites, nCalls, prods := r.P.NilContractSites()
	r.Units["(nil,nil) producers"] = len(prods)
	r.Units["call sites of producers"] = nCalls
	if len(prods) < 20 {
		r.Fail("C28-R1", "instance-count producers", "", fmt.Sprintf("only %d (nil,nil) producers found, hand-confirmed minimum 20", len(prods)))
	}
	used := map[string]bool{}
	for _, s := range sites {
		if s.Guarded {
			r.Pass("C28-R1", FnName(s.Fn)+": "+s.Callee+" result dereferenced", r.P.Pos(s.Deref.Pos()), s.Why)
			continue
		}
		callee := s.Callee
		if i := strings.Index(callee, " (via"); i > 0 {
			callee = callee[:i]
		}
		key := "nil|" + FnName(s.Fn) + "|" + callee
		if why, ok := c28Reviewed[key]; ok {
			used[key] = true
			r.Pass("C28-R1", FnName(s.Fn)+": "+callee+" result dereferenced without nil check (reviewed)", r.P.Pos(s.Deref.Pos()), "reviewed: "+why)
			continue
		}
		r.Check("C28-R1", FnName(s.Fn)+": "+callee+" result dereferenced without nil check", r.P.Pos(s.Deref.Pos()), false, s.Why)
	}
	r.Check("C28-R1", "nil contract: all dereferences of (nil,nil)-capable results are guarded, argument-safe or reviewed", "", true, fmt.Sprintf("%d producers, %d call sites, %d unguarded dereferences triaged", len(prods), nCalls, len(sites)))
	r.Extra["nilnil_producers"] = prods

	// R2
	roots := r.P.httpHandlerRoots()
	r.Units["http handler closures"] = len(roots)
	if len(roots) < 50 {
		r.Fail("C28-R2", "instance-count handlers", "", fmt.Sprintf("only %d handler functions found in package api", len(roots)))
	}
	psites, nreach := r.P.reachablePanics(roots)
	r.Units["module functions reachable from handlers (VTA)"] = nreach
	deep := 0
	for _, s := range psites {
		name := FnName(s.Fn)
		if strings.HasPrefix(name, "api.") {
			r.Check("C28-R2", name+": explicit panic in the handler layer: "+trunc(s.Desc, 80), r.P.Pos(s.In.Pos()), false, "reachable via "+trunc(s.Path, 200))
		} else {
			deep++
		}
	}
	r.Check("C28-R2", "no explicit panic statement in package api on any handler path", "", true, fmt.Sprintf("%d handler roots", len(roots)))
	r.Units["panic statements reachable below the handler layer (reported, not decided)"] = deep
	// positive control for the zero-count rule: the engine must see known panic sites elsewhere
	ctl := 0
	if fn := r.P.Fn("cipher.MustNewPubKey"); fn != nil {
		ctl = len(r.P.explicitPanics(fn))
	}
	r.Check("C28-R2", "positive control: the panic detector finds the panic in cipher.MustNewPubKey", "", ctl >= 1, "")

	// R3
	tot := 0
	for _, fn := range r.P.ModFns {
		name := FnName(fn)
		if !strings.HasPrefix(name, "api.") {
			continue
		}
		for _, s := range r.P.Facts(fn).BoundSites() {
			tot++
			if s.OK {
				r.Pass("C28-R3", name+": "+trunc(s.Expr, 70), r.P.Pos(s.In.Pos()), s.Why)
				continue
			}
			rev := ""
			for k, why := range c28Reviewed {
				parts := strings.SplitN(k, "|", 3)
				if parts[0] == "bounds" && parts[1] == name && strings.HasPrefix(s.Expr, parts[2]) {
					rev = why
					used[k] = true
				}
			}
			if rev != "" {
				r.Pass("C28-R3", name+": "+trunc(s.Expr, 70)+" (reviewed)", r.P.Pos(s.In.Pos()), "reviewed: "+rev)
			} else {
				r.Check("C28-R3", name+": "+trunc(s.Expr, 70), r.P.Pos(s.In.Pos()), false, s.Why)
			}
		}
	}
	r.Units["bounds obligations in package api"] = tot
	r.Check("C28-R3", "bounds: every slice/index expression of package api is discharged or reviewed", "", tot >= 300, fmt.Sprintf("%d obligations", tot))
	for k := range c28Reviewed {
		if !used[k] {
			r.Note("reviewed exception no longer needed: %s", k)
		}
	}
}
