package main

// witnessOverlayFromEnv is filled in by selftest.go
func witnessOverlayFromEnv() (map[string][]byte, []string, error) { return nil, nil, nil }
