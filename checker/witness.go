package main

import (
	"bufio"
	"fmt"
	"os"
	"os/exec"
	"path/filepath"
	"sort"
	"strings"
)

// Witness self-test (thorough tier).  A witness is a stored patch against /repo that is
// known to break the property (a seeded change kept under seeded/<id>-*/patch.diff, or
// the reverse of a repair commit kept under witness/<id>/*.diff).  The patch is applied
// to copies of the touched files in a temporary directory and handed to the loader as a
// go/packages overlay: /repo is never modified and nothing is executed.  The rule set
// of the property must report a violation on the overlaid tree.

const exitWitnessNA = 3

// witnessOverlayFromEnv builds the overlay for VERIF_WITNESS_PATCH (nil if unset).
func witnessOverlayFromEnv() (map[string][]byte, []string, error) {
	patch := os.Getenv("VERIF_WITNESS_PATCH")
	if patch == "" {
		return nil, nil, nil
	}
	files, err := patchFiles(patch)
	if err != nil || len(files) == 0 {
		fmt.Fprintln(os.Stderr, "witness: cannot read patch:", patch, err)
		os.Exit(exitWitnessNA)
	}
	tmp, err := os.MkdirTemp("", "skyverif-witness-")
	if err != nil {
		return nil, nil, err
	}
	defer os.RemoveAll(tmp)
	for _, f := range files {
		dst := filepath.Join(tmp, f)
		os.MkdirAll(filepath.Dir(dst), 0o755)
		if b, err := os.ReadFile(filepath.Join(repoDir(), f)); err == nil {
			os.WriteFile(dst, b, 0o644)
		}
	}
	cmd := exec.Command("patch", "-p1", "-s", "-f", "--no-backup-if-mismatch", "-d", tmp, "-i", patch)
	if out, err := cmd.CombinedOutput(); err != nil {
		fmt.Fprintf(os.Stderr, "witness: patch does not apply to this tree (%s): %s\n", patch, strings.TrimSpace(string(out)))
		os.Exit(exitWitnessNA)
	}
	overlay := map[string][]byte{}
	for _, f := range files {
		b, err := os.ReadFile(filepath.Join(tmp, f))
		if err != nil {
			continue
		}
		overlay[filepath.Join(repoDir(), f)] = b
	}
	return overlay, nil, nil
}

func patchFiles(patch string) ([]string, error) {
	fh, err := os.Open(patch)
	if err != nil {
		return nil, err
	}
	defer fh.Close()
	seen := map[string]bool{}
	var out []string
	sc := bufio.NewScanner(fh)
	sc.Buffer(make([]byte, 1<<20), 1<<26)
	for sc.Scan() {
		l := sc.Text()
		for _, pre := range []string{"+++ b/", "--- a/", "+++ a/", "--- b/"} {
			if strings.HasPrefix(l, pre) {
				f := strings.TrimSpace(strings.TrimPrefix(l, pre))
				if i := strings.IndexByte(f, '\t'); i >= 0 {
					f = f[:i]
				}
				if !seen[f] && strings.HasSuffix(f, ".go") {
					seen[f] = true
					out = append(out, f)
				}
			}
		}
	}
	return out, sc.Err()
}

type WitnessResult struct {
	Patch  string `json:"patch"`
	Result string `json:"result"` // fired | silent | not-applicable | no-verdict
	Detail string `json:"detail,omitempty"`
}

// runWitnesses re-runs this checker once per stored witness of the property.
func runWitnesses(id string) []WitnessResult {
	var patches []string
	a, _ := filepath.Glob(filepath.Join(verifDir(), "seeded", id+"-*", "patch.diff"))
	b, _ := filepath.Glob(filepath.Join(verifDir(), "witness", id, "*.diff"))
	patches = append(append(patches, a...), b...)
	sort.Strings(patches)
	// seeded changes the rule set is known not to decide (documented in DESIGN.md 8.5): reported, not required to fire
	notCaught := map[string]bool{}
	if b, err := os.ReadFile(filepath.Join(verifDir(), "seeded", "not_caught.txt")); err == nil {
		for _, l := range strings.Split(string(b), "\n") {
			if f := strings.Fields(l); len(f) >= 1 && !strings.HasPrefix(l, "#") {
				notCaught[f[0]] = true
			}
		}
	}
	var out []WitnessResult
	for _, p := range patches {
		if rel, _ := filepath.Rel(verifDir(), p); notCaught[rel] {
			out = append(out, WitnessResult{Patch: rel, Result: "known-not-caught", Detail: "listed in seeded/not_caught.txt"})
			continue
		}
		cmd := exec.Command(os.Args[0], id, "quick")
		cmd.Env = append(os.Environ(), "VERIF_WITNESS_PATCH="+p, "VERIF_NO_EVIDENCE=1")
		o, err := cmd.CombinedOutput()
		rel, _ := filepath.Rel(verifDir(), p)
		res := WitnessResult{Patch: rel}
		code := 0
		if ee, ok := err.(*exec.ExitError); ok {
			code = ee.ExitCode()
		} else if err != nil {
			code = 2
		}
		switch code {
		case 1:
			res.Result = "fired"
			for _, l := range strings.Split(string(o), "\n") {
				if strings.HasPrefix(strings.TrimSpace(l), "FAILED") {
					res.Detail = trunc(strings.TrimSpace(l), 240)
					break
				}
			}
		case 0:
			res.Result = "silent"
		case exitWitnessNA:
			res.Result = "not-applicable"
			res.Detail = trunc(strings.TrimSpace(string(o)), 200)
		default:
			res.Result = "no-verdict"
			res.Detail = trunc(strings.TrimSpace(string(o)), 200)
		}
		out = append(out, res)
	}
	return out
}

// runBenign re-runs this checker on the stored behaviour-preserving edits of the property
// (benign/<id>/edit*.diff): the rule set must stay silent.  Edits listed in benign/known_alarms.txt
// (residual, documented false alarms) are skipped.
func runBenign(id string) []WitnessResult {
	known := map[string]bool{}
	if b, err := os.ReadFile(filepath.Join(verifDir(), "benign", "known_alarms.txt")); err == nil {
		for _, l := range strings.Split(string(b), "\n") {
			f := strings.Fields(l)
			if len(f) >= 2 && !strings.HasPrefix(l, "#") {
				known[f[0]+" "+f[1]] = true
			}
		}
	}
	patches, _ := filepath.Glob(filepath.Join(verifDir(), "benign", id, "edit*.diff"))
	sort.Strings(patches)
	var out []WitnessResult
	for _, p := range patches {
		rel, _ := filepath.Rel(verifDir(), p)
		if known[rel+" "+id] {
			out = append(out, WitnessResult{Patch: rel, Result: "known-alarm (skipped)"})
			continue
		}
		cmd := exec.Command(os.Args[0], id, "quick")
		cmd.Env = append(os.Environ(), "VERIF_WITNESS_PATCH="+p, "VERIF_NO_EVIDENCE=1")
		o, err := cmd.CombinedOutput()
		code := 0
		if ee, ok := err.(*exec.ExitError); ok {
			code = ee.ExitCode()
		} else if err != nil {
			code = 2
		}
		res := WitnessResult{Patch: rel}
		switch code {
		case 0:
			res.Result = "quiet"
		case 1:
			res.Result = "false-alarm"
			for _, l := range strings.Split(string(o), "\n") {
				if strings.HasPrefix(strings.TrimSpace(l), "FAILED") {
					res.Detail = trunc(strings.TrimSpace(l), 240)
					break
				}
			}
		case exitWitnessNA:
			res.Result = "not-applicable"
		default:
			res.Result = "no-verdict"
		}
		out = append(out, res)
	}
	return out
}
