package main

import (
	"fmt"
	"go/types"
	"golang.org/x/tools/go/ssa"
	"strings"
)

func init() { props["C07"] = checkC07 }

func checkC07(r *Run) {
	r.Explain = "(R6) getBlockInputs calculates the input hours of every transaction of a block at the time of block seq-1 read from the chain; C07: (R1) the derived-index buckets (address index, unspent meta, the five history buckets) are written only by their accessors, reached only from block execution (ProcessBlock / ParseBlock) or the rebuild paths (buildAddrIndex / Erase); (R2) ProcessBlock co-updates: each deleted/inserted output is folded into the checksum, the address index is adjusted for every touched address and the index height is set to the block's sequence on success; (R3) poolAddrIndex.adjust rejects inconsistent removals/additions and deletes empty rows; (R4) ParseBlock records, for every transaction, the txn, every spent input (marking the output spent and indexing the owner address) and every created output, then the parsed height; the rebuild parses from the genesis block when nothing was parsed, in the same db transaction as the erase; (R5) predicted balances: one db view reads head, all pool transactions, the outputs spent by all their inputs, the outputs they create for the requested addresses and the confirmed outputs; predicted[addr] = confirmed[addr].Sub(spentByPool[addr]).Add(incoming[addr]) with the same address on all three lookups; spentByPool groups by owner restricted to requested addresses; every requested address has an entry in the confirmed map (so the all-zero branch is dead); the four reported numbers are the coin/hour totals of the confirmed resp. predicted arrays at head time; one pair per address in order."
	r.NotDec = "equality of the views with a recomputation for concrete histories"
	// R1
	allowed := map[string][]string{
		"visor/blockdb.UnspentPoolAddrIndexBkt": {"visor/blockdb.poolAddrIndex.put", "visor/blockdb.poolAddrIndex.adjust", "visor/blockdb.Unspents.buildAddrIndex", "visor/blockdb.CreateBuckets"},
		"visor/blockdb.UnspentMetaBkt":          {"visor/blockdb.unspentMeta.setXorHash", "visor/blockdb.unspentMeta.setAddrIndexHeight", "visor/blockdb.CreateBuckets"},
		"visor/historydb.AddressTxnsBkt":        {"visor/historydb.addressTxns.add", "visor/historydb.addressTxns.reset", "visor/historydb.CreateBuckets"},
		"visor/historydb.AddressUxBkt":          {"visor/historydb.addressUx.add", "visor/historydb.addressUx.reset", "visor/historydb.CreateBuckets"},
		"visor/historydb.HistoryMetaBkt":        {"visor/historydb.historyMeta.setParsedBlockSeq", "visor/historydb.historyMeta.reset", "visor/historydb.CreateBuckets"},
		"visor/historydb.TransactionsBkt":       {"visor/historydb.transactions.put", "visor/historydb.transactions.reset", "visor/historydb.CreateBuckets"},
		"visor/historydb.UxOutsBkt":             {"visor/historydb.uxOuts.put", "visor/historydb.uxOuts.reset", "visor/historydb.CreateBuckets"},
	}
	n := 0
	for _, w := range r.P.BucketWrites() {
		al, ok := allowed[w.Bucket]
		if !ok {
			continue
		}
		n++
		good := false
		for _, a := range al {
			if FnName(w.Fn) == a {
				good = true
			}
		}
		r.Check("C07-R1", w.Bucket+" written by "+FnName(w.Fn), r.P.Pos(w.Site.Pos()), good, "unexpected writer of a derived index bucket")
	}
	r.Min("C07-R1", 20)
	r.checkCallers("C07-R1", "visor/blockdb.poolAddrIndex.adjust", "visor/blockdb.Unspents.ProcessBlock")
	r.checkCallers("C07-R1", "visor/blockdb.poolAddrIndex.put", "visor/blockdb.poolAddrIndex.adjust", "visor/blockdb.Unspents.buildAddrIndex")
	r.checkCallers("C07-R1", "visor/blockdb.unspentMeta.setXorHash", "visor/blockdb.Unspents.ProcessBlock")
	r.checkCallers("C07-R1", "visor/blockdb.unspentMeta.setAddrIndexHeight", "visor/blockdb.Unspents.ProcessBlock", "visor/blockdb.Unspents.buildAddrIndex")
	r.checkCallers("C07-R1", "visor/blockdb.Unspents.buildAddrIndex", "visor/blockdb.Unspents.MaybeBuildIndexes")
	for _, f := range []string{"addressTxns.add", "addressUx.add", "transactions.put", "uxOuts.put"} {
		r.checkCallers("C07-R1", "visor/historydb."+f, "visor/historydb.HistoryDB.ParseBlock")
	}
	for _, f := range []string{"addressTxns.reset", "addressUx.reset", "transactions.reset", "uxOuts.reset", "historyMeta.reset"} {
		r.checkCallers("C07-R1", "visor/historydb."+f, "visor/historydb.HistoryDB.Erase")
	}
	// Erase empties every bucket of the history, the parsed-height marker included: a rebuild restarts from block 0
	if fn := r.fn("C07-R6", "visor/historydb.HistoryDB.Erase"); fn != nil {
		var fields []string
		if st := derefStruct(fn.Signature.Recv().Type()); st != nil {
			for i := 0; i < st.NumFields(); i++ {
				ms := types.NewMethodSet(st.Field(i).Type())
				for j := 0; j < ms.Len(); j++ {
					if ms.At(j).Obj().Name() == "reset" {
						fields = append(fields, st.Field(i).Name())
					}
				}
			}
		}
		r.Check("C07-R6", "HistoryDB buckets with a reset method", r.P.Pos(fn.Pos()), len(fields) >= 5, fmt.Sprint(fields))
		ff := r.P.Facts(fn)
		_, facts := ff.SuccessFacts()
		for _, f := range fields {
			okAll := len(facts) > 0
			for _, fs := range facts {
				if _, m := matchAny([]string{"ok(*.reset($0." + f + ", $1))"}, fs); !m {
					okAll = false
				}
			}
			if !okAll {
				// the loop form: the bucket is put into a list of resettable things that is reset element by element
				boxed, invoked := false, false
				for _, b := range fn.Blocks {
					for _, in := range b.Instrs {
						if mi, ok := in.(*ssa.MakeInterface); ok && ff.Term(mi.X) == "$0."+f {
							boxed = true
						}
						if ci, ok := in.(ssa.CallInstruction); ok && ci.Common().IsInvoke() && ci.Common().Method.Name() == "reset" {
							invoked = true
						}
					}
				}
				okAll = boxed && invoked
			}
			r.Check("C07-R6", "HistoryDB.Erase resets bucket "+f+" on every successful return", r.P.Pos(fn.Pos()), okAll, "a bucket that survives Erase makes the rebuilt history differ from a history parsed from scratch")
		}
	}
	r.checkCallers("C07-R1", "visor/historydb.HistoryDB.SetParsedBlockSeq", "visor/historydb.HistoryDB.ParseBlock")
	r.checkCallers("C07-R1", "visor/historydb.HistoryDB.ParseBlock", "visor.Visor.executeSignedBlockUnsafe", "visor.parseHistoryTo", "visor.rebuildHistoryDB")
	r.checkCallers("C07-R1", "visor/historydb.HistoryDB.Erase", "visor.initHistory", "visor.rebuildHistoryDB")

	// R2 ProcessBlock co-updates
	const pb = "visor/blockdb.Unspents.ProcessBlock"
	got := "visor/blockdb.Unspents.GetArray($0, $1, *)#0"
	created := "fold[acc=nil; append(acc, coin.CreateUnspents($2.Block.Head, *))]"
	r.RequireStore("C07-R2", pb, "each spent output is folded into the checksum", "var:cipher.SHA256 := cipher.SHA256.Xor(*, coin.UxOut.SnapshotHash("+got+"[i]))")
	r.RequireStore("C07-R2", pb, "each created output is folded into the checksum", "var:cipher.SHA256 := cipher.SHA256.Xor*(*, coin.UxOut.SnapshotHash*("+created+"[i]))")
	r.RequireStore("C07-R2", pb, "spent hash recorded under the owner address for the index", "set{"+got+"[i].Body.Address}["+got+"[i].Body.Address] := append(*, [coin.UxOut.Hash("+got+"[i])])")
	r.RequireStore("C07-R2", pb, "created hash recorded under the owner address for the index", "set{"+created+"[i].Body.Address}["+created+"[i].Body.Address] := append(*, [coin.UxOut.Hash*("+created+"[i])])")
	r.RequireEveryIteration("C07-R2", pb, "visor/blockdb.pool.delete")
	r.RequireEveryIteration("C07-R2", pb, "visor/blockdb.pool.put")
	r.RequireOnSuccess("C07-R2", pb,
		req("checksum read before and written after the updates", "ok(visor/blockdb.unspentMeta.setXorHash($0.meta, $1, *))"),
		req("address index adjusted for every address that lost outputs", "forall(range set{"+got+"[i].Body.Address}): ok(visor/blockdb.poolAddrIndex.adjust($0.poolAddrIndex, $1, *#1, *, *#2))"),
		req("address index adjusted for every remaining address that gained outputs", "forall(range set{"+created+"[i].Body.Address}): ok(visor/blockdb.poolAddrIndex.adjust($0.poolAddrIndex, $1, *#1, *#2, nil))"),
		req("blocks indexed in order", "when: $2.Block.Head.BkSeq != 0 => $2.Block.Head.BkSeq == (visor/blockdb.unspentMeta.getAddrIndexHeight($0.meta, $1)#0 + 1)"),
		req("index height set to this block", "ok(visor/blockdb.unspentMeta.setAddrIndexHeight($0.meta, $1, $2.Block.Head.BkSeq))"))

	// R3 adjust
	const adj = "visor/blockdb.poolAddrIndex.adjust"
	r.RequireOnSuccessExcept("C07-R3", adj, []string{"len($3) == 0"},
		req("existing row read", "ok(visor/blockdb.poolAddrIndex.get($0, $1, $2))"),
		req("no duplicate removals", "len(set{$4[i]}) == len($4)"),
		req("not more removals than indexed", "0 <= (len(visor/blockdb.poolAddrIndex.get($0, $1, $2)#0) - len($4))"),
		req("every removal was indexed", "fold[acc=0; (acc + 1)] == len($4)"),
		req("no hash both added and removed", "forall(i < len($3)): !lookup(set{$4[i]}[$3[i]])#1"),
		req("no hash added twice", "forall(i < len($3)): !lookup(set{*}[$3[i]])#1"))
	r.RequireAtCall("C07-R3", adj, "visor/dbutil.Delete", 1, req("row deleted exactly when it became empty", "len(*) == 0"))
	r.RequireAtCall("C07-R3", adj, "visor/blockdb.poolAddrIndex.put", 1, req("row written when non-empty", "len(*) != 0"))

	// R4 ParseBlock
	const ps = "visor/historydb.HistoryDB.ParseBlock"
	txn := "$2.Body.Transactions[i]"
	o := "visor/historydb.uxOuts.get($0.outputs, $1, " + txn + ".In[j])"
	cu := "coin.CreateUnspents($2.Head, " + txn + ")"
	r.RequireOnSuccess("C07-R4", ps,
		req("every transaction recorded with the block sequence", "forall(i < len($2.Body.Transactions)): ok(visor/historydb.transactions.put($0.txns, $1, {BlockSeq: $2.Head.BkSeq, Txn: "+txn+"}))"),
		req("every input's output found", "forall(i < len($2.Body.Transactions))(j < len("+txn+".In)): "+o+"#0 != nil"),
		req("every spent output written back", "forall(i < len($2.Body.Transactions))(j < len("+txn+".In)): ok(visor/historydb.uxOuts.put($0.outputs, $1, *))"),
		req("every input indexes the spending txn under the owner address", "forall(i < len($2.Body.Transactions))(j < len("+txn+".In)): ok(visor/historydb.addressTxns.add($0.addrTxns, $1, visor/historydb.uxOuts.get($0.outputs, $1, *[i].In[j])#0.Out.Body.Address, coin.Transaction.Hash("+txn+")))"),
		req("every created output stored", "forall(i < len($2.Body.Transactions))(j < len("+cu+")): ok(visor/historydb.uxOuts.put($0.outputs, $1, {Out: "+cu+"[j]}))"),
		req("every created output indexed under its address", "forall(i < len($2.Body.Transactions))(j < len("+cu+")): ok(visor/historydb.addressUx.add($0.addrUx, $1, coin.CreateUnspents($2.Head, *[i])[j].Body.Address, coin.UxOut.Hash("+cu+"[j])))"),
		req("every created output indexes the txn under the receiving address", "forall(i < len($2.Body.Transactions))(j < len("+cu+")): ok(visor/historydb.addressTxns.add($0.addrTxns, $1, coin.CreateUnspents($2.Head, *[i])[j].Body.Address, coin.Transaction.Hash("+txn+")))"),
		req("parsed height set to this block", "ok(visor/historydb.HistoryDB.SetParsedBlockSeq($0, $1, $2.Head.BkSeq))"))
	r.RequireStore("C07-R4", ps, "spent output marked with the spending block", "*.SpentBlockSeq := $2.Head.BkSeq")
	r.RequireStore("C07-R4", ps, "spent output marked with the spending txn", "*.SpentTxnID := coin.Transaction.Hash("+txn+")")
	// rebuild
	pbs := "visor/historydb.HistoryDB.ParsedBlockSeq($1, $0)"
	space := "i=φ((" + pbs + "#0 + 1)|0);i <= $3"
	r.RequireOnSuccess("C07-R4", "visor.parseHistoryTo",
		req("every block from the first unparsed one (genesis when nothing was parsed) up to the height is parsed", "forall("+space+"): ok(visor/historydb.HistoryDB.ParseBlock($1, $0, visor.Blockchain.GetSignedBlockBySeq($2, $0, i)#0.Block))"),
		req("missing block is an error", "forall("+space+"): visor.Blockchain.GetSignedBlockBySeq($2, $0, i)#0 != nil"))
	if fn := r.fn("C07-R4", "visor.parseHistoryTo"); fn != nil {
		r.RequirePhiEdgeAllPaths("C07-R4", fn, "0", req("nothing has been parsed yet", "!"+pbs+"#1"))
		r.RequirePhiEdgeAllPaths("C07-R4", fn, "("+pbs+"#0 + 1)", req("a parsed height exists", pbs+"#1"))
	}
	r.RequireAtCall("C07-R4", "visor.initHistory", "visor.parseHistoryTo", 1,
		req("only after a reset was found necessary", "visor/historydb.HistoryDB.NeedsReset($2, $0)#0"),
		req("the old history was erased first", "ok(visor/historydb.HistoryDB.Erase($2, $0))"),
		req("the chain has a head", "visor.Blockchain.HeadSeq($1, $0)#1"))
	if fn := r.P.Fn("visor.initHistory"); fn != nil {
		for _, cs := range r.CallSites(fn, "visor.parseHistoryTo") {
			ok := r.argTerm(cs, 0) == "$0" && r.argTerm(cs, 3) == "visor.Blockchain.HeadSeq($1, $0)#0"
			r.Check("C07-R4", "initHistory re-parses up to the chain head in the caller's transaction", r.P.Pos(cs.Pos()), ok, "")
		}
	}
	// R6 block queries: the input hours shown for a block's transactions are calculated at the time of the block
	// that directly precedes it on the chain (seq-1, read from the db), whatever query produced the block
	const gbi = "visor.Visor.getBlockInputs"
	if fn := r.fn("C07-R6", gbi); fn != nil {
		ff := r.P.Facts(fn)
		n := 0
		const PREV = "iface:visor.Blockchainer.GetSignedBlockBySeq($0.blockchain, $1, ($2.Block.Head.BkSeq - 1))#0"
		for _, cs := range r.CallSites(fn, "visor.Visor.getTransactionInputs") {
			n++
			t := ff.Term(cs.Common().Args[2])
			r.Check("C07-R6", gbi+": input hours are calculated at the time of block seq-1 read from the chain", r.P.Pos(cs.Pos()), t == PREV+".Block.Head.Time", t)
			lp := ff.innermost[cs.Block()]
			r.Check("C07-R6", gbi+": inputs resolved for every transaction of the block, in order", r.P.Pos(cs.Pos()), lp != nil && ff.loopSpace(lp) == "i < len($2.Block.Body.Transactions)" && ff.everyIteration(cs.Block(), lp) && ff.Term(cs.Common().Args[3]) == "$2.Block.Body.Transactions[i].In", ff.Term(cs.Common().Args[3]))
		}
		r.Check("C07-R6", gbi+": getTransactionInputs sites", "", n == 1, "")
		r.RequireOnSuccessExcept("C07-R6", gbi, []string{"$2 == nil", "$2.Block.Head.BkSeq == 0"},
			req("previous block read", "ok(iface:visor.Blockchainer.GetSignedBlockBySeq($0.blockchain, $1, ($2.Block.Head.BkSeq - 1)))"),
			req("previous block exists", PREV+" != nil"))
	}
	// R5 predicted balance = confirmed - spent-by-pool + created-by-pool, for every requested address
	c07Predicted(r)
}

func c07Predicted(r *Run) {
	const gb = "visor.Visor.GetBalanceOfAddresses"
	outer := r.fn("C07-R5", gb)
	inner := r.fn("C07-R5", gb+":1")
	if outer == nil || inner == nil {
		return
	}
	fo, fi := r.P.Facts(outer), r.P.Facts(inner)
	// roles of the captured variables, from what the db-view closure stores into them
	var mc *ssa.MakeClosure
	for _, b := range outer.Blocks {
		for _, in := range b.Instrs {
			if m, ok := in.(*ssa.MakeClosure); ok && m.Fn == inner {
				mc = m
			}
		}
	}
	if mc == nil {
		r.Fail("C07-R5", gb+": db-view closure", r.P.Pos(outer.Pos()), "anchor-unresolved: closure not found")
		return
	}
	role := map[ssa.Value]string{} // outer alloc -> role
	const ALL = "iface:visor.UnconfirmedTransactionPooler.AllRawTransactions(^$^0.unconfirmed, $0)#0"
	want := map[string]string{
		"confirmed": "iface:visor/blockdb.UnspentPooler.GetUnspentsOfAddrs(iface:visor.Blockchainer.Unspent*(^$^0.blockchain), $0, ^$^1)#0",
		"incoming":  "visor.txnOutputsForAddrs(^local:*coin.SignedBlock.Block.Head, ^$^1, " + ALL + ")#0",
		"spent":     "iface:visor/blockdb.UnspentPooler.GetArray(iface:visor.Blockchainer.Unspent*(^$^0.blockchain), $0, fold[acc=nil; append(acc, " + ALL + "[i].In)])#0",
		"head":      "iface:visor.Blockchainer.Head(^$^0.blockchain, $0)#0",
	}
	for _, b := range inner.Blocks {
		for _, in := range b.Instrs {
			st, ok := in.(*ssa.Store)
			if !ok {
				continue
			}
			fv, ok := st.Addr.(*ssa.FreeVar)
			if !ok {
				continue
			}
			t := fi.Term(st.Val)
			for ro, pat := range want {
				if glob(pat, t) {
					for i, f := range inner.FreeVars {
						if f == fv {
							role[mc.Bindings[i]] = ro
						}
					}
				}
			}
		}
	}
	for ro := range want {
		found := false
		for _, v := range role {
			if v == ro {
				found = true
			}
		}
		desc := map[string]string{"confirmed": "the requested addresses' unspent outputs", "incoming": "outputs created for the requested addresses by ALL pool transactions, at the head block", "spent": "the outputs spent by ALL inputs of ALL pool transactions", "head": "the head block"}[ro]
		r.Check("C07-R5", gb+": one db view reads "+desc, r.P.Pos(inner.Pos()), found, "")
	}
	r.RequireOnSuccess("C07-R5", gb+":1", req("head read", "ok(iface:visor.Blockchainer.Head(*))"), req("pool read", "ok(iface:visor.UnconfirmedTransactionPooler.AllRawTransactions(*))"),
		req("incoming computed", "ok(visor.txnOutputsForAddrs(*))"), req("spent outputs read", "ok(iface:visor/blockdb.UnspentPooler.GetArray(*))"), req("confirmed read", "ok(iface:visor/blockdb.UnspentPooler.GetUnspentsOfAddrs(*))"))
	roleOf := func(v ssa.Value) string { // value loaded from a captured variable
		if u, ok := v.(*ssa.UnOp); ok {
			return role[u.X]
		}
		return ""
	}
	// the predicted array
	nP := 0
	for _, b := range outer.Blocks {
		for _, in := range b.Instrs {
			add, ok := in.(*ssa.Call)
			if !ok || calleeName(&add.Call) != "coin.UxArray.Add" {
				continue
			}
			nP++
			sub, ok := add.Call.Args[0].(*ssa.Call)
			okShape := ok && calleeName(&sub.Call) == "coin.UxArray.Sub"
			var key ssa.Value
			var spendMap ssa.Value
			if okShape {
				// receiver of Sub: element of the confirmed map
				if ex, ok := sub.Call.Args[0].(*ssa.Extract); ok {
					if lk, ok := ex.Tuple.(*ssa.Lookup); ok && roleOf(lk.X) == "confirmed" {
						key = lk.Index
					}
				}
				if lk, ok := sub.Call.Args[1].(*ssa.Lookup); ok && key != nil && fo.Term(lk.Index) == fo.Term(key) {
					spendMap = lk.X
				} else {
					okShape = false
				}
				if lk, ok := add.Call.Args[1].(*ssa.Lookup); !ok || key == nil || roleOf(lk.X) != "incoming" || fo.Term(lk.Index) != fo.Term(key) {
					okShape = false
				}
			}
			r.Check("C07-R5", gb+": predicted = confirmed[addr].Sub(spentByPool[addr]).Add(incoming[addr]) for the same address", r.P.Pos(add.Pos()), okShape && key != nil && fo.Term(key) == "$1[i]", "")
			// spentByPool: built from the spent outputs, keyed by owner, restricted to the requested addresses
			okSpend := false
			if mm, ok := spendMap.(*ssa.MakeMap); ok {
				for _, rf := range *mm.Referrers() {
					mu, ok := rf.(*ssa.MapUpdate)
					if !ok {
						continue
					}
					t := fo.Term(mu.Value)
					k := fo.Term(mu.Key)
					if glob("append(*, [local:coin.UxArray[i]])", t) && k == "local:coin.UxArray[i].Body.Address" {
						lp := fo.innermost[mu.Block()]
						guard := false
						for _, a := range fo.Must(mu.Block()) {
							if a.S == "lookup(set{$1[i]}[local:coin.UxArray[i].Body.Address])#1" {
								guard = true
							}
						}
						okSpend = guard && lp != nil && glob("i < len(local:coin.UxArray)", fo.loopSpace(lp))
					}
				}
			}
			r.Check("C07-R5", gb+": spentByPool groups every spent output by its owner when the owner was requested", r.P.Pos(add.Pos()), okSpend, "")
		}
	}
	r.Check("C07-R5", gb+": predicted array sites", "", nP == 1, "")
	// reported fields
	const U = "lookup(map{}[$1[i]])#0"
	P := "coin.UxArray.Add(coin.UxArray.Sub(" + U + ", set{local:coin.UxArray[i].Body.Address}[$1[i]]), map{}[$1[i]])"
	for _, st := range fo.StoreFacts() {
		switch {
		case strings.HasPrefix(st.S, "local:wallet.BalancePair.Confirmed.Coins := "):
			r.Check("C07-R5", gb+": Confirmed.Coins is the coin total of the confirmed outputs", r.P.Pos(st.In.Pos()), st.S == "local:wallet.BalancePair.Confirmed.Coins := coin.UxArray.Coins("+U+")#0", trunc(st.S, 200))
		case strings.HasPrefix(st.S, "local:wallet.BalancePair.Confirmed.Hours := "):
			r.Check("C07-R5", gb+": Confirmed.Hours is the hour total of the confirmed outputs at head time (0 on the tolerated overflow)", r.P.Pos(st.In.Pos()), strings.Contains(st.S, "coin.UxArray.CoinHours("+U+", local:*coin.SignedBlock.Block.Head.Time)#0") && !strings.Contains(st.S, "UxArray.Add("), trunc(st.S, 200))
		case strings.HasPrefix(st.S, "local:wallet.BalancePair.Predicted.Coins := "):
			r.Check("C07-R5", gb+": Predicted.Coins is the coin total of the predicted outputs", r.P.Pos(st.In.Pos()), st.S == "local:wallet.BalancePair.Predicted.Coins := coin.UxArray.Coins("+P+")#0", trunc(st.S, 300))
		case strings.HasPrefix(st.S, "local:wallet.BalancePair.Predicted.Hours := "):
			r.Check("C07-R5", gb+": Predicted.Hours is the hour total of the predicted outputs at head time", r.P.Pos(st.In.Pos()), strings.Contains(st.S, "coin.UxArray.CoinHours("+P+", local:*coin.SignedBlock.Block.Head.Time)#0"), trunc(st.S, 300))
		}
	}
	r.Min("C07-R5", 12)
	// one pair per requested address, in order: every iteration appends exactly one pair
	nApp := 0
	for _, b := range outer.Blocks {
		for _, in := range b.Instrs {
			c, ok := in.(*ssa.Call)
			if !ok || calleeName(&c.Call) != "append" || !strings.Contains(typeShort(c.Type()), "BalancePair") {
				continue
			}
			nApp++
			lp := fo.innermost[b]
			r.Check("C07-R5", gb+": a balance pair is appended inside the loop over the requested addresses", r.P.Pos(c.Pos()), lp != nil && fo.loopSpace(lp) == "i < len($1)", "")
		}
	}
	r.Check("C07-R5", gb+": balance-pair append sites", "", nApp == 2, "")
	// the empty-pair branch is dead only if the confirmed map has an entry for every requested address
	const gu = "visor/blockdb.Unspents.GetUnspentsOfAddrs"
	if fn := r.fn("C07-R5", gu); fn != nil {
		ff := r.P.Facts(fn)
		n := 0
		for _, b := range fn.Blocks {
			for _, in := range b.Instrs {
				mu, ok := in.(*ssa.MapUpdate)
				if !ok {
					continue
				}
				n++
				lp := ff.innermost[b]
				okk := lp != nil && ff.loopSpace(lp) == "i < len($2)" && ff.everyIteration(b, lp) && ff.Term(mu.Key) == "$2[i]" &&
					glob("visor/blockdb.Unspents.GetArray($0, $1, visor/blockdb.poolAddrIndex.get($0.poolAddrIndex, $1, $2[i])#0)#0", ff.Term(mu.Value))
				r.Check("C07-R5", gu+": every requested address gets an entry (possibly empty) holding exactly its indexed outputs", r.P.Pos(mu.Pos()), okk, "an address without an entry is reported with an all-zero balance pair, dropping its pool effects")
			}
		}
		r.Check("C07-R5", gu+": map update sites", "", n == 1, "")
		for _, e := range ff.Exits() {
			if e.Kind == ExitSuccess && e.Ret != nil {
				r.Check("C07-R5", gu+": returns the map it filled", r.P.Pos(e.Ret.Pos()), ff.Term(e.Ret.Results[0]) == "set{$2[i]}", ff.Term(e.Ret.Results[0]))
			}
		}
	}
	// incoming: every output of every pool transaction owned by a requested address
	const tf = "visor.txnOutputsForAddrs"
	if fn := r.fn("C07-R5", tf); fn != nil {
		ff := r.P.Facts(fn)
		n := 0
		for _, b := range fn.Blocks {
			for _, in := range b.Instrs {
				mu, ok := in.(*ssa.MapUpdate)
				if !ok || !strings.Contains(ff.Term(mu.Value), "CreateUnspent") {
					continue
				}
				n++
				guard, onlyGuard := false, true
				for _, a := range ff.Must(b) {
					if a.S == "lookup(set{$1[i]}[$2[i].Out[j].Address])#1" {
						guard = true
					}
				}
				lp := ff.innermost[b]
				okk := guard && onlyGuard && lp != nil && ff.loopSpace(lp) == "j < len($2[i].Out)" && lp.Parent != nil && ff.loopSpace(lp.Parent) == "i < len($2)" &&
					ff.Term(mu.Key) == "$2[i].Out[j].Address" && glob("append(*, [coin.CreateUnspent($0, $2[i], j)#0])", ff.Term(mu.Value))
				r.Check("C07-R5", tf+": output j of transaction i is recorded under its own address exactly when that address was requested", r.P.Pos(mu.Pos()), okk, "")
				// no other condition may skip an output: the only branches between the inner loop header and this block are the membership test
				paths, okp := ff.PathFacts(b, 200)
				extra := false
				for _, p := range paths {
					for _, a := range p {
						if strings.Contains(a, ".Coins") || strings.Contains(a, ".Hours") {
							extra = true
						}
					}
				}
				r.Check("C07-R5", tf+": no output is skipped on account of its amount", r.P.Pos(mu.Pos()), okp && !extra, "")
			}
		}
		r.Check("C07-R5", tf+": record sites", "", n == 1, "")
	}
}
