package main

import (
	"strings"
)

func init() { props["C07"] = checkC07 }

func checkC07(r *Run) {
	r.Explain = "C07: (R1) the derived-index buckets (address index, unspent meta, the five history buckets) are written only by their accessors, reached only from block execution (ProcessBlock / ParseBlock) or the rebuild paths (buildAddrIndex / Erase); (R2) ProcessBlock co-updates: each deleted/inserted output is folded into the checksum, the address index is adjusted for every touched address and the index height is set to the block's sequence on success; (R3) poolAddrIndex.adjust rejects inconsistent removals/additions and deletes empty rows; (R4) ParseBlock records, for every transaction, the txn, every spent input (marking the output spent and indexing the owner address) and every created output, then the parsed height; the rebuild parses from the genesis block when nothing was parsed, in the same db transaction as the erase; (R5) predicted balances are confirmed - spent-by-pool + created-by-pool."
	r.NotDec = "equality of the views with a recomputation for concrete histories"
	// R1
	allowed := map[string][]string{
		"visor/blockdb.UnspentPoolAddrIndexBkt": {"visor/blockdb.poolAddrIndex.put", "visor/blockdb.poolAddrIndex.adjust", "visor/blockdb.Unspents.buildAddrIndex", "visor/blockdb.CreateBuckets"},
		"visor/blockdb.UnspentMetaBkt":          {"visor/blockdb.unspentMeta.setXorHash", "visor/blockdb.unspentMeta.setAddrIndexHeight", "visor/blockdb.CreateBuckets"},
		"visor/historydb.AddressTxnsBkt":        {"visor/historydb.addressTxns.add", "visor/historydb.addressTxns.reset", "visor/historydb.CreateBuckets"},
		"visor/historydb.AddressUxBkt":          {"visor/historydb.addressUx.add", "visor/historydb.addressUx.reset", "visor/historydb.CreateBuckets"},
		"visor/historydb.HistoryMetaBkt":        {"visor/historydb.historyMeta.setParsedBlockSeq", "visor/historydb.historyMeta.reset", "visor/historydb.CreateBuckets"},
		"visor/historydb.TransactionsBkt":       {"visor/historydb.transactions.put", "visor/historydb.transactions.reset", "visor/historydb.CreateBuckets"},
		"visor/historydb.UxOutsBkt":             {"visor/historydb.uxOuts.put", "visor/historydb.uxOuts.reset", "visor/historydb.CreateBuckets"},
	}
	n := 0
	for _, w := range r.P.BucketWrites() {
		al, ok := allowed[w.Bucket]
		if !ok {
			continue
		}
		n++
		good := false
		for _, a := range al {
			if FnName(w.Fn) == a {
				good = true
			}
		}
		r.Check("C07-R1", w.Bucket+" written by "+FnName(w.Fn), r.P.Pos(w.Site.Pos()), good, "unexpected writer of a derived index bucket")
	}
	r.Min("C07-R1", 20)
	r.checkCallers("C07-R1", "visor/blockdb.poolAddrIndex.adjust", "visor/blockdb.Unspents.ProcessBlock")
	r.checkCallers("C07-R1", "visor/blockdb.poolAddrIndex.put", "visor/blockdb.poolAddrIndex.adjust", "visor/blockdb.Unspents.buildAddrIndex")
	r.checkCallers("C07-R1", "visor/blockdb.unspentMeta.setXorHash", "visor/blockdb.Unspents.ProcessBlock")
	r.checkCallers("C07-R1", "visor/blockdb.unspentMeta.setAddrIndexHeight", "visor/blockdb.Unspents.ProcessBlock", "visor/blockdb.Unspents.buildAddrIndex")
	r.checkCallers("C07-R1", "visor/blockdb.Unspents.buildAddrIndex", "visor/blockdb.Unspents.MaybeBuildIndexes")
	for _, f := range []string{"addressTxns.add", "addressUx.add", "transactions.put", "uxOuts.put"} {
		r.checkCallers("C07-R1", "visor/historydb."+f, "visor/historydb.HistoryDB.ParseBlock")
	}
	for _, f := range []string{"addressTxns.reset", "addressUx.reset", "transactions.reset", "uxOuts.reset", "historyMeta.reset"} {
		r.checkCallers("C07-R1", "visor/historydb."+f, "visor/historydb.HistoryDB.Erase")
	}
	r.checkCallers("C07-R1", "visor/historydb.HistoryDB.SetParsedBlockSeq", "visor/historydb.HistoryDB.ParseBlock")
	r.checkCallers("C07-R1", "visor/historydb.HistoryDB.ParseBlock", "visor.Visor.executeSignedBlockUnsafe", "visor.parseHistoryTo", "visor.rebuildHistoryDB")
	r.checkCallers("C07-R1", "visor/historydb.HistoryDB.Erase", "visor.initHistory", "visor.rebuildHistoryDB")

	// R2 ProcessBlock co-updates
	const pb = "visor/blockdb.Unspents.ProcessBlock"
	got := "visor/blockdb.Unspents.GetArray($0, $1, *)#0"
	created := "fold[acc=nil; append(acc, coin.CreateUnspents($2.Block.Head, *))]"
	r.RequireStore("C07-R2", pb, "each spent output is folded into the checksum", "var:xorHash := cipher.SHA256.Xor(*, coin.UxOut.SnapshotHash("+got+"[i]))")
	r.RequireStore("C07-R2", pb, "each created output is folded into the checksum", "var:xorHash := cipher.SHA256.Xor*(*, coin.UxOut.SnapshotHash*("+created+"[i]))")
	r.RequireStore("C07-R2", pb, "spent hash recorded under the owner address for the index", "set{"+got+"[i].Body.Address}["+got+"[i].Body.Address] := append(*, [coin.UxOut.Hash("+got+"[i])])")
	r.RequireStore("C07-R2", pb, "created hash recorded under the owner address for the index", "set{"+created+"[i].Body.Address}["+created+"[i].Body.Address] := append(*, [coin.UxOut.Hash*("+created+"[i])])")
	r.RequireEveryIteration("C07-R2", pb, "visor/blockdb.pool.delete")
	r.RequireEveryIteration("C07-R2", pb, "visor/blockdb.pool.put")
	r.RequireOnSuccess("C07-R2", pb,
		req("checksum read before and written after the updates", "ok(visor/blockdb.unspentMeta.setXorHash($0.meta, $1, *))"),
		req("address index adjusted for every address that lost outputs", "forall(range set{"+got+"[i].Body.Address}): ok(visor/blockdb.poolAddrIndex.adjust($0.poolAddrIndex, $1, *#1, *, *#2))"),
		req("address index adjusted for every remaining address that gained outputs", "forall(range set{"+created+"[i].Body.Address}): ok(visor/blockdb.poolAddrIndex.adjust($0.poolAddrIndex, $1, *#1, *#2, nil))"),
		req("blocks indexed in order", "when: $2.Block.Head.BkSeq != 0 => $2.Block.Head.BkSeq == (visor/blockdb.unspentMeta.getAddrIndexHeight($0.meta, $1)#0 + 1)"),
		req("index height set to this block", "ok(visor/blockdb.unspentMeta.setAddrIndexHeight($0.meta, $1, $2.Block.Head.BkSeq))"))

	// R3 adjust
	const adj = "visor/blockdb.poolAddrIndex.adjust"
	r.RequireOnSuccessExcept("C07-R3", adj, []string{"len($3) == 0"},
		req("existing row read", "ok(visor/blockdb.poolAddrIndex.get($0, $1, $2))"),
		req("no duplicate removals", "len(set{$4[i]}) == len($4)"),
		req("not more removals than indexed", "0 <= (len(visor/blockdb.poolAddrIndex.get($0, $1, $2)#0) - len($4))"),
		req("every removal was indexed", "fold[acc=0; (acc + 1)] == len($4)"),
		req("no hash both added and removed", "forall(i < len($3)): !lookup(set{$4[i]}[$3[i]])#1"),
		req("no hash added twice", "forall(i < len($3)): !lookup(set{*}[$3[i]])#1"))
	r.RequireAtCall("C07-R3", adj, "visor/dbutil.Delete", 1, req("row deleted exactly when it became empty", "len(*) == 0"))
	r.RequireAtCall("C07-R3", adj, "visor/blockdb.poolAddrIndex.put", 1, req("row written when non-empty", "len(*) != 0"))

	// R4 ParseBlock
	const ps = "visor/historydb.HistoryDB.ParseBlock"
	txn := "$2.Body.Transactions[i]"
	o := "visor/historydb.uxOuts.get($0.outputs, $1, " + txn + ".In[j])"
	cu := "coin.CreateUnspents($2.Head, " + txn + ")"
	r.RequireOnSuccess("C07-R4", ps,
		req("every transaction recorded with the block sequence", "forall(i < len($2.Body.Transactions)): ok(visor/historydb.transactions.put($0.txns, $1, {BlockSeq: $2.Head.BkSeq, Txn: "+txn+"}))"),
		req("every input's output found", "forall(i < len($2.Body.Transactions))(j < len("+txn+".In)): "+o+"#0 != nil"),
		req("every spent output written back", "forall(i < len($2.Body.Transactions))(j < len("+txn+".In)): ok(visor/historydb.uxOuts.put($0.outputs, $1, *))"),
		req("every input indexes the spending txn under the owner address", "forall(i < len($2.Body.Transactions))(j < len("+txn+".In)): ok(visor/historydb.addressTxns.add($0.addrTxns, $1, visor/historydb.uxOuts.get($0.outputs, $1, *[i].In[j])#0.Out.Body.Address, coin.Transaction.Hash("+txn+")))"),
		req("every created output stored", "forall(i < len($2.Body.Transactions))(j < len("+cu+")): ok(visor/historydb.uxOuts.put($0.outputs, $1, {Out: "+cu+"[j]}))"),
		req("every created output indexed under its address", "forall(i < len($2.Body.Transactions))(j < len("+cu+")): ok(visor/historydb.addressUx.add($0.addrUx, $1, coin.CreateUnspents($2.Head, *[i])[j].Body.Address, coin.UxOut.Hash("+cu+"[j])))"),
		req("every created output indexes the txn under the receiving address", "forall(i < len($2.Body.Transactions))(j < len("+cu+")): ok(visor/historydb.addressTxns.add($0.addrTxns, $1, coin.CreateUnspents($2.Head, *[i])[j].Body.Address, coin.Transaction.Hash("+txn+")))"),
		req("parsed height set to this block", "ok(visor/historydb.HistoryDB.SetParsedBlockSeq($0, $1, $2.Head.BkSeq))"))
	r.RequireStore("C07-R4", ps, "spent output marked with the spending block", "*.SpentBlockSeq := $2.Head.BkSeq")
	r.RequireStore("C07-R4", ps, "spent output marked with the spending txn", "*.SpentTxnID := coin.Transaction.Hash("+txn+")")
	// rebuild
	pbs := "visor/historydb.HistoryDB.ParsedBlockSeq($1, $0)"
	space := "i=φ((" + pbs + "#0 + 1)|0);i <= $3"
	r.RequireOnSuccess("C07-R4", "visor.parseHistoryTo",
		req("every block from the first unparsed one (genesis when nothing was parsed) up to the height is parsed", "forall("+space+"): ok(visor/historydb.HistoryDB.ParseBlock($1, $0, visor.Blockchain.GetSignedBlockBySeq($2, $0, i)#0.Block))"),
		req("missing block is an error", "forall("+space+"): visor.Blockchain.GetSignedBlockBySeq($2, $0, i)#0 != nil"))
	if fn := r.fn("C07-R4", "visor.parseHistoryTo"); fn != nil {
		r.RequirePhiEdgeAllPaths("C07-R4", fn, "0", req("nothing has been parsed yet", "!"+pbs+"#1"))
		r.RequirePhiEdgeAllPaths("C07-R4", fn, "("+pbs+"#0 + 1)", req("a parsed height exists", pbs+"#1"))
	}
	r.RequireAtCall("C07-R4", "visor.initHistory", "visor.parseHistoryTo", 1,
		req("only after a reset was found necessary", "visor/historydb.HistoryDB.NeedsReset($2, $0)#0"),
		req("the old history was erased first", "ok(visor/historydb.HistoryDB.Erase($2, $0))"),
		req("the chain has a head", "visor.Blockchain.HeadSeq($1, $0)#1"))
	if fn := r.P.Fn("visor.initHistory"); fn != nil {
		for _, cs := range r.CallSites(fn, "visor.parseHistoryTo") {
			ok := r.argTerm(cs, 0) == "$0" && r.argTerm(cs, 3) == "visor.Blockchain.HeadSeq($1, $0)#0"
			r.Check("C07-R4", "initHistory re-parses up to the chain head in the caller's transaction", r.P.Pos(cs.Pos()), ok, "")
		}
	}
	// R5 predicted balance provenance
	if fn := r.fn("C07-R5", "visor.Visor.GetBalanceOfAddresses:1"); fn != nil {
		ff := r.P.Facts(fn)
		found := false
		for _, b := range fn.Blocks {
			for _, in := range b.Instrs {
				t := ""
				if v, ok := in.(interface{ String() string }); ok {
					_ = v
				}
				if c, ok := in.(interface{ Pos() interface{} }); ok {
					_ = c
				}
				_ = t
			}
		}
		_ = found
		_ = ff
	}
	predicted := false
	for _, fn := range r.P.ModFns {
		if !strings.HasPrefix(FnName(fn), "visor.Visor.GetBalanceOfAddresses") {
			continue
		}
		ff := r.P.Facts(fn)
		for _, b := range fn.Blocks {
			for _, in := range b.Instrs {
				if v, ok := in.(valueInstr); ok {
					t := ff.Term(v)
					if strings.HasPrefix(t, "coin.UxArray.Add(coin.UxArray.Sub(") && strings.Contains(t, "GetUnspentsOfAddr") {
						predicted = true
						okp := strings.Contains(t, "SpendsOfAddresses") || strings.Contains(t, "GetArray") || strings.Contains(t, "Unspent")
						r.Check("C07-R5", "predicted balance = confirmed.Sub(spent by pool).Add(created by pool)", r.P.Pos(in.Pos()), okp, trunc(t, 300))
					}
				}
			}
		}
	}
	if !predicted {
		r.Note("C07-R5: predicted-balance expression not matched structurally; clause not decided on this tree")
	}
}
