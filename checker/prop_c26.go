package main

import (
	"strings"

	"golang.org/x/tools/go/ssa"
)

func init() { props["C26"] = checkC26 }

func checkC26(r *Run) {
	r.Explain = "C26: (R1) the peer map is written only by peerlist.addPeer and peerlist.setPeers, whose call chains are enumerated, and every address reaching them is the sanitised first result of a successful validateAddress (taint by term provenance); (R2) validateAddress succeeds exactly for ip:port with a parseable IP that is loopback-and-allowed or global unicast, a 16-bit port >= 1024, and returns the sanitised string; (R3) bulk adds return early when full and are cut to Max-len; a full list evicts only the result of findOldestUntrustedPeer (which skips trusted peers) and only if it is older than a day; clearOld deletes only untrusted peers."
	r.NotDec = "start-up loading from a custom peers file is not capped (by design; reported in evidence); IPv4-vs-IPv6 distinctions inside net.ParseIP"
	ruleNoCrossedConfig(r, "C26-R0")
	// R1: writers of the peers map
	n := 0
	for _, fn := range r.P.ModFns {
		if !strings.HasPrefix(FnName(fn), "daemon/pex.") {
			continue
		}
		for _, s := range r.P.Facts(fn).StoreFacts() {
			mu, ok := s.In.(*ssa.MapUpdate)
			if !ok {
				continue
			}
			if !strings.HasSuffix(r.P.Facts(fn).Term(mu.Map), ".peers") {
				continue
			}
			n++
			name := FnName(fn)
			r.Check("C26-R1", "peer map written by "+name, r.P.Pos(mu.Pos()), name == "daemon/pex.peerlist.addPeer" || name == "daemon/pex.peerlist.setPeers", s.S)
		}
	}
	r.Min("C26-R1", 2)
	r.RequireStore("C26-R1", "daemon/pex.peerlist.addPeer", "the key is the given address and the peer is built from it", "$0.peers[$1] := daemon/pex.NewPeer($1)")
	r.RequireStore("C26-R1", "daemon/pex.peerlist.setPeers", "the key is the peer's own address", "$0.peers[$1[i].Addr] := *")
	r.checkCallers("C26-R1", "daemon/pex.peerlist.addPeer", "daemon/pex.peerlist.addPeers", "daemon/pex.Pex.AddPeer")
	r.checkCallers("C26-R1", "daemon/pex.peerlist.addPeers", "daemon/pex.Pex.AddPeers", "daemon/pex.Pex.loadCustom")
	r.checkCallers("C26-R1", "daemon/pex.peerlist.setPeers", "daemon/pex.Pex.loadCache")
	va := "daemon/pex.validateAddress($1, $0.Config.AllowLocalhost)"
	for _, cs := range r.RequireAtCall("C26-R1", "daemon/pex.Pex.AddPeer", "daemon/pex.peerlist.addPeer", 1, req("address validated", "ok("+va+")")) {
		r.Check("C26-R1", "AddPeer stores the sanitised address returned by validateAddress", r.P.Pos(cs.Pos()), r.argTerm(cs, 1) == va+"#0", r.argTerm(cs, 1))
	}
	vi := "daemon/pex.validateAddress($1[i], $0.Config.AllowLocalhost)"
	F := "fold[acc=nil; append(acc, [" + vi + "#0])]"
	if fn := r.fn("C26-R1", "daemon/pex.Pex.AddPeers"); fn != nil {
		for _, cs := range r.CallSites(fn, "daemon/pex.peerlist.addPeers") {
			t := r.argTerm(cs, 1)
			// the accumulator may start nil or as an empty pre-sized slice
			tn := strings.ReplaceAll(t, "acc=make([]string, 0)", "acc=nil")
			ok := tn == F || glob("φ("+F+"|fold[acc=nil; append(acc, [daemon/pex.validateAddress(*[i], $0.Config.AllowLocalhost)#0])][:*])", tn)
			r.Check("C26-R1", "AddPeers stores only the sanitised results of validateAddress (possibly capped)", r.P.Pos(cs.Pos()), ok, trunc(t, 300))
		}
	}
	r.RequireAtStore("C26-R1", "daemon/pex.Pex.AddPeers", "local:varargs[0] := "+vi+"#0", 1, req("only addresses that validated are collected", "ok("+vi+")"))
	r.RequireOnSuccess("C26-R1", "daemon/pex.parseLocalPeerList",
		req("every non-comment line validates", "forall(i < len(strings.Split($0, \"\\n\"))): * => ok(daemon/pex.validateAddress(regexp.Regexp.ReplaceAllString(daemon/pex.whitespaceFilter, strings.Split($0, \"\\n\")[i], \"\"), $1))"))
	r.RequireOnSuccess("C26-R1", "daemon/pex.newPeerFromJSON", req("cached peers are re-validated", "ok(daemon/pex.validateAddress($0.Addr, true))"))
	r.RequireAtStore("C26-R1", "daemon/pex.Pex.loadCache", "local:varargs[0] := next(range(*))#2", 1, req("cached peer address validated with the node's localhost policy", "ok(daemon/pex.validateAddress(next(range(*))#1, $0.Config.AllowLocalhost))"))

	// R2
	san := `regexp.Regexp.ReplaceAllString(daemon/pex.whitespaceFilter, $0, "")`
	pts := "strings.Split(" + san + `, ":")`
	ip := "net.ParseIP(" + pts + "[0])"
	port := "strconv.ParseUint(" + pts + "[1], 10, 16)"
	reqs := []Req{
		req("exactly ip:port", "len("+pts+") == 2"),
		req("IP parses", ip+" != nil"),
		req("loopback only when allowed", "when: net.IP.IsLoopback("+ip+") => $1"),
		req("otherwise global unicast", "when: !net.IP.IsLoopback("+ip+") => net.IP.IsGlobalUnicast("+ip+")"),
		req("port parses as 16-bit decimal", "ok("+port+")"),
		req("port at least 1024", "1024 <= "+port+"#0"),
	}
	r.RequireOnSuccess("C26-R2", "daemon/pex.validateAddress", reqs...)
	r.ExhaustiveRejects("C26-R2", "daemon/pex.validateAddress", append(reqs,
		req("loopback test", "net.IP.IsLoopback("+ip+")", "!net.IP.IsLoopback("+ip+")"), req("allowed", "$1"), req("global unicast", "net.IP.IsGlobalUnicast("+ip+")"))...)
	r.ReturnShape("C26-R2", "daemon/pex.validateAddress", 0, ShapeCase{"1024 <= " + port + "#0", san}, ShapeCase{"", `""`})

	// R3
	r.ReturnShape("C26-R3", "daemon/pex.Pex.AddPeers", 0,
		ShapeCase{"$0.Config.Max <= daemon/pex.peerlist.len($0.peerlist)", "0"},
		ShapeCase{"", "len(*)"})
	r.RequireAtStore("C26-R3", "daemon/pex.Pex.AddPeers", "var:[]string := *[:($0.Config.Max - daemon/pex.peerlist.len@2($0.peerlist))]", 1,
		req("capped only when a maximum is configured", "0 < $0.Config.Max"),
		req("list not already full", "when: 0 < $0.Config.Max => daemon/pex.peerlist.len($0.peerlist) < $0.Config.Max"),
		req("only cut when longer than the remaining capacity", "($0.Config.Max - daemon/pex.peerlist.len@2($0.peerlist)) < len(*)"))
	r.RequireBranchDominatesCall("C26-R3", "daemon/pex.Pex.AddPeers", "daemon/pex.peerlist.addPeers", "the configured maximum is consulted before every bulk insertion", "0 < $0.Config.Max")
	old := "daemon/pex.peerlist.findOldestUntrustedPeer($0.peerlist)"
	for _, cs := range r.RequireAtCall("C26-R3", "daemon/pex.Pex.AddPeer", "daemon/pex.peerlist.removePeer", 1,
		req("only when full", "daemon/pex.Pex.isFull($0)"),
		req("an untrusted candidate exists", old+" != nil"),
		req("candidate not seen for a day", "86400 <= (time.Time.Unix(time.Time.UTC(time.Now())) - "+old+".LastSeen)")) {
		r.Check("C26-R3", "AddPeer evicts only the oldest untrusted peer", r.P.Pos(cs.Pos()), r.argTerm(cs, 1) == old+".Addr", r.argTerm(cs, 1))
	}
	// findOldestUntrustedPeer: the candidate is only ever a peer with !Trusted
	if fn := r.fn("C26-R3", "daemon/pex.peerlist.findOldestUntrustedPeer"); fn != nil {
		ff := r.P.Facts(fn)
		// the accumulator φ: every in-loop update edge must be under !p.Trusted
		ok, cnt := true, 0
		for _, b := range fn.Blocks {
			for _, in := range b.Instrs {
				phi, isPhi := in.(*ssa.Phi)
				if !isPhi || ff.headerLoop[b] == nil || !strings.Contains(phi.Comment, "oldest") {
					continue
				}
				for i, e := range phi.Edges {
					if e == phi || !ff.headerLoop[b].Blocks[b.Preds[i]] {
						continue
					}
					if ff.Term(e) == "acc" {
						continue
					}
					cnt++
					found := false
					for _, a := range ff.Must(b.Preds[i]) {
						if a.S == "!next(range($0.peers))#2.Trusted" {
							found = true
						}
					}
					for _, a := range ff.edgeAtoms(b.Preds[i], b) {
						_ = a
					}
					if !found {
						ok = false
					}
				}
			}
		}
		r.Check("C26-R3", "findOldestUntrustedPeer: the candidate is replaced only by an untrusted peer", r.P.Pos(fn.Pos()), ok && cnt > 0, "")
	}
	// every delete from the peers map
	nd := 0
	for _, fn := range r.P.ModFns {
		if !strings.HasPrefix(FnName(fn), "daemon/pex.") {
			continue
		}
		ff := r.P.Facts(fn)
		for _, b := range fn.Blocks {
			for _, in := range b.Instrs {
				c, ok := in.(*ssa.Call)
				if !ok || calleeName(&c.Call) != "delete" || !strings.HasSuffix(ff.Term(c.Call.Args[0]), ".peers") {
					continue
				}
				nd++
				switch FnName(fn) {
				case "daemon/pex.peerlist.removePeer":
					r.Pass("C26-R3", "peer deleted by removePeer (callers checked)", r.P.Pos(c.Pos()), "")
				case "daemon/pex.peerlist.clearOld":
					found := false
					for _, a := range ff.MustAt(c) {
						if a.S == "!next(range($0.peers))#2.Trusted" {
							found = true
						}
					}
					r.Check("C26-R3", "clearOld deletes only untrusted peers", r.P.Pos(c.Pos()), found, "")
				default:
					r.Check("C26-R3", "peer deleted by "+FnName(fn), r.P.Pos(c.Pos()), false, "unexpected deleter of the peer map")
				}
			}
		}
	}
	if nd < 2 {
		r.Fail("C26-R3", "peer map deleters", "", "anchor-unresolved")
	}
	r.checkCallers("C26-R3", "daemon/pex.peerlist.removePeer", "daemon/pex.Pex.AddPeer", "daemon/pex.Pex.RemovePeer")
	r.Note("Pex.loadCustom adds every line of a custom peers file without the Max cap (start-up path, by design)")
}
