package main

import (
	"bytes"
	"fmt"
	"go/ast"
	"go/printer"
	"go/token"
	"go/types"
	"reflect"
	"regexp"
	"strconv"
	"strings"

	"golang.org/x/tools/go/packages"
)

// Codec translation validation (engine E10, property C21).
//
// Source program  = the reflective reference encoder applied to a Go type T.  Its
//                   behaviour on T is a function of T's structure and `enc` tags only;
//                   Ref(T) below re-derives that wire schema following
//                   encoder.datasizeWrite / Encoder.value / Decoder.value.
// Target program  = the generated encodeSizeT / encodeTToBuffer / decodeT / decodeTExact.
// Validation      = a guided walk of the target's AST along Ref(T): at every schema
//                   item the next statements must have the shape that implements
//                   that item (with the reference's guards, in the reference's order).
//                   Anything else is "undecided" and fails.

type cItem struct {
	Path   string // obj.Field, obj.F[].G …
	Kind   string // u8 u16 u32 u64 i8 i16 i32 i64 bool | bytesN | slice | bytes | string
	N      int    // bytesN length / prim size
	MaxLen int
	Omit   bool
	Elem   []cItem // slice element items (paths relative with [])
	Fixed  bool    // slice element has a fixed size
	GoType string  // element Go type for make()
}

func (it cItem) String() string {
	s := it.Kind
	switch it.Kind {
	case "bytesN":
		s = fmt.Sprintf("[%d]byte", it.N)
	case "slice":
		var es []string
		for _, e := range it.Elem {
			es = append(es, e.String())
		}
		s = "[]{" + strings.Join(es, " ") + "}"
	}
	if it.MaxLen > 0 {
		s += fmt.Sprintf(",maxlen=%d", it.MaxLen)
	}
	if it.Omit {
		s += ",omitempty"
	}
	return it.Path + ":" + s
}

var primKinds = map[types.BasicKind]struct {
	k string
	n int
}{
	types.Uint8: {"u8", 1}, types.Uint16: {"u16", 2}, types.Uint32: {"u32", 4}, types.Uint64: {"u64", 8},
	types.Int8: {"i8", 1}, types.Int16: {"i16", 2}, types.Int32: {"i32", 4}, types.Int64: {"i64", 8},
	types.Bool: {"bool", 1},
}

// refSchema derives the wire schema of struct type t (reference encoder semantics).
func refSchema(t types.Type, path string, qual types.Qualifier) ([]cItem, error) {
	st, ok := t.Underlying().(*types.Struct)
	if !ok {
		return nil, fmt.Errorf("%s: not a struct", path)
	}
	var out []cItem
	n := st.NumFields()
	for i := 0; i < n; i++ {
		f := st.Field(i)
		if !f.Exported() { // reflect: PkgPath != ""
			continue
		}
		tag := reflect.StructTag(st.Tag(i)).Get("enc")
		omit := strings.Contains(tag, ",omitempty")
		if omit && i != n-1 {
			return nil, fmt.Errorf("%s.%s: omitempty on a non-final field (reference encoder panics)", path, f.Name())
		}
		if len(tag) > 0 && tag[0] == '-' {
			continue
		}
		if f.Name() == "_" {
			continue
		}
		maxlen := 0
		if k := strings.Index(tag, ",maxlen="); k >= 0 {
			rem := tag[k+len(",maxlen="):]
			if c := strings.Index(rem, ","); c >= 0 {
				rem = rem[:c]
			}
			v, err := strconv.Atoi(rem)
			if err != nil {
				return nil, fmt.Errorf("%s.%s: bad maxlen tag", path, f.Name())
			}
			maxlen = v
		}
		items, err := refValue(f.Type(), path+"."+f.Name(), maxlen, qual)
		if err != nil {
			return nil, err
		}
		if omit {
			if len(items) != 1 || (items[0].Kind != "bytes" && items[0].Kind != "slice" && items[0].Kind != "string") {
				return nil, fmt.Errorf("%s.%s: omitempty on a type that is never empty", path, f.Name())
			}
			items[0].Omit = true
		}
		out = append(out, items...)
	}
	return out, nil
}

func refValue(t types.Type, path string, maxlen int, qual types.Qualifier) ([]cItem, error) {
	switch u := t.Underlying().(type) {
	case *types.Basic:
		if u.Kind() == types.String {
			return []cItem{{Path: path, Kind: "string", MaxLen: maxlen}}, nil
		}
		if pk, ok := primKinds[u.Kind()]; ok {
			return []cItem{{Path: path, Kind: pk.k, N: pk.n}}, nil
		}
		return nil, fmt.Errorf("%s: unsupported basic type %s", path, u)
	case *types.Struct:
		return refSchema(t, path, qual)
	case *types.Array:
		if b, ok := u.Elem().Underlying().(*types.Basic); ok && b.Kind() == types.Uint8 {
			return []cItem{{Path: path, Kind: "bytesN", N: int(u.Len())}}, nil
		}
		return nil, fmt.Errorf("%s: arrays of non-byte elements are outside the validated language", path)
	case *types.Slice:
		if b, ok := u.Elem().Underlying().(*types.Basic); ok && b.Kind() == types.Uint8 {
			return []cItem{{Path: path, Kind: "bytes", MaxLen: maxlen}}, nil
		}
		elem, err := refValue(u.Elem(), path+"[]", 0, qual)
		if err != nil {
			return nil, err
		}
		fixed := true
		for _, e := range elem {
			if e.Kind == "slice" || e.Kind == "bytes" || e.Kind == "string" {
				fixed = false
			}
		}
		return []cItem{{Path: path, Kind: "slice", MaxLen: maxlen, Elem: elem, Fixed: fixed, GoType: types.TypeString(u.Elem(), qual)}}, nil
	}
	return nil, fmt.Errorf("%s: type %s is outside the validated language (maps, interfaces, pointers)", path, t)
}

// ---------------------------------------------------------------------------

type codecFile struct {
	pkg   *packages.Package
	file  *ast.File
	name  string // type name T as used in function names (exported form)
	typ   types.Type
	funcs map[string]*ast.FuncDecl
}

type codecCheck struct {
	p      *Program
	cf     *codecFile
	fails  []string
	nItems int
}

func (c *codecCheck) failf(pos token.Pos, format string, a ...interface{}) {
	c.fails = append(c.fails, c.p.Pos(pos)+": "+fmt.Sprintf(format, a...))
}

var wsRe = regexp.MustCompile(`\s+`)

func (c *codecCheck) es(n ast.Node) string {
	if n == nil {
		return ""
	}
	var buf bytes.Buffer
	printer.Fprint(&buf, c.p.Fset, n)
	return wsRe.ReplaceAllString(buf.String(), " ")
}

// stmtCursor iterates statements, transparently entering bare blocks.
type stmtCursor struct {
	stack [][]ast.Stmt
}

func newCursor(stmts []ast.Stmt) *stmtCursor { return &stmtCursor{stack: [][]ast.Stmt{stmts}} }

func (sc *stmtCursor) next() ast.Stmt {
	for len(sc.stack) > 0 {
		top := sc.stack[len(sc.stack)-1]
		if len(top) == 0 {
			sc.stack = sc.stack[:len(sc.stack)-1]
			continue
		}
		s := top[0]
		sc.stack[len(sc.stack)-1] = top[1:]
		if b, ok := s.(*ast.BlockStmt); ok {
			sc.stack = append(sc.stack, b.List)
			continue
		}
		return s
	}
	return nil
}

func (sc *stmtCursor) done() bool {
	for _, s := range sc.stack {
		for _, st := range s {
			if b, ok := st.(*ast.BlockStmt); !ok || len(b.List) > 0 {
				return false
			}
		}
	}
	return true
}

// normPath rewrites loop variables to the [] path convention.
func normPath(s string, env map[string]string) string {
	// decoder: obj.X[z1].Y -> obj.X[].Y
	s = regexp.MustCompile(`\[z\d+\]`).ReplaceAllString(s, "[]")
	// encoder: x1.Y -> env[x1].Y
	if i := strings.IndexAny(s, ".["); i > 0 {
		if p, ok := env[s[:i]]; ok {
			return p + s[i:]
		}
	} else if p, ok := env[s]; ok {
		return p
	}
	return s
}

// ---- size function -------------------------------------------------------

// checkSize validates encodeSizeT against items.
func (c *codecCheck) checkSize(fd *ast.FuncDecl, items []cItem) {
	sc := newCursor(fd.Body.List)
	s := sc.next()
	if c.es(s) != "i0 := uint64(0)" {
		c.failf(fd.Pos(), "size: expected accumulator init, got %q", c.es(s))
		return
	}
	c.sizeItems(sc, items, "i0", 0, map[string]string{}, fd)
	s = sc.next()
	if c.es(s) != "return i0" || !sc.done() {
		c.failf(fd.Pos(), "size: expected `return i0` at the end, got %q", c.es(s))
	}
}

func (c *codecCheck) sizeItems(sc *stmtCursor, items []cItem, acc string, depth int, env map[string]string, fd *ast.FuncDecl) {
	for _, it := range items {
		c.nItems++
		if it.Omit {
			s := sc.next()
			ifs, ok := s.(*ast.IfStmt)
			if !ok || normPath(c.es(ifs.Cond), env) != "len("+it.Path+") != 0" || ifs.Else != nil {
				c.failf(posOf(s, fd), "size: omitempty field %s must be guarded by `if len(..) != 0`, got %q", it.Path, c.es(s))
				return
			}
			inner := newCursor(ifs.Body.List)
			it2 := it
			it2.Omit = false
			c.sizeItems(inner, []cItem{it2}, acc, depth, env, fd)
			if !inner.done() {
				c.failf(ifs.Pos(), "size: extra statements in omitempty block of %s", it.Path)
			}
			continue
		}
		s := sc.next()
		switch it.Kind {
		case "slice":
			if c.es(s) != acc+" += 4" {
				c.failf(posOf(s, fd), "size: %s: expected 4-byte length prefix, got %q", it.Path, c.es(s))
				return
			}
			sub := fmt.Sprintf("i%d", depth+1)
			if it.Fixed {
				// { iK := uint64(0); elem...; acc += uint64(len(P)) * iK }
				s = sc.next()
				if c.es(s) != sub+" := uint64(0)" {
					c.failf(posOf(s, fd), "size: %s: expected element accumulator, got %q", it.Path, c.es(s))
					return
				}
				c.sizeItems(sc, it.Elem, sub, depth+1, env, fd)
				s = sc.next()
				got := c.es(s)
				want := acc + " += uint64(len(" + it.Path + ")) * " + sub
				if normPath(strings.Replace(got, "len(", "len(", 1), env) != want && normLen(got, env) != want {
					c.failf(posOf(s, fd), "size: %s: expected %q, got %q", it.Path, want, got)
					return
				}
			} else {
				fs, ok := s.(*ast.RangeStmt)
				if !ok {
					s = sc.next()
					fs, ok = s.(*ast.RangeStmt)
				}
				if !ok || normPath(c.es(fs.X), env) != it.Path || c.es(fs.Key) != "_" {
					c.failf(posOf(s, fd), "size: %s: expected `for _, x := range %s`, got %q", it.Path, it.Path, c.es(s))
					return
				}
				env2 := copyEnv(env)
				env2[c.es(fs.Value)] = it.Path + "[]"
				inner := newCursor(fs.Body.List)
				s2 := inner.next()
				if c.es(s2) != sub+" := uint64(0)" {
					c.failf(posOf(s2, fd), "size: %s: expected element accumulator, got %q", it.Path, c.es(s2))
					return
				}
				c.sizeItems(inner, it.Elem, sub, depth+1, env2, fd)
				s2 = inner.next()
				if c.es(s2) != acc+" += "+sub || !inner.done() {
					c.failf(posOf(s2, fd), "size: %s: expected `%s += %s` closing the element loop, got %q", it.Path, acc, sub, c.es(s2))
					return
				}
			}
		case "bytes", "string":
			want := acc + " += 4 + uint64(len(" + it.Path + "))"
			if normLen(c.es(s), env) != want {
				c.failf(posOf(s, fd), "size: %s: expected %q, got %q", it.Path, want, c.es(s))
				return
			}
		default:
			n := it.N
			got := c.es(s)
			ok := got == fmt.Sprintf("%s += %d", acc, n) || (n == 1 && got == acc+"++")
			if !ok {
				c.failf(posOf(s, fd), "size: %s (%s): expected %d bytes, got %q", it.Path, it.Kind, n, got)
				return
			}
		}
	}
}

var lenArgRe = regexp.MustCompile(`len\(([^()]+)\)`)

func normLen(s string, env map[string]string) string {
	return lenArgRe.ReplaceAllStringFunc(s, func(m string) string {
		inner := m[4 : len(m)-1]
		return "len(" + normPath(inner, env) + ")"
	})
}

func copyEnv(e map[string]string) map[string]string {
	o := map[string]string{}
	for k, v := range e {
		o[k] = v
	}
	return o
}

func posOf(s ast.Stmt, fd *ast.FuncDecl) token.Pos {
	if s == nil {
		return fd.End()
	}
	return s.Pos()
}

// ---- encoder -------------------------------------------------------------

var encMethod = map[string]string{"u8": "Uint8", "u16": "Uint16", "u32": "Uint32", "u64": "Uint64", "i8": "Int8", "i16": "Int16", "i32": "Int32", "i64": "Int64", "bool": "Bool"}

func (c *codecCheck) checkEncode(fd *ast.FuncDecl, items []cItem) {
	T := c.cf.name
	sc := newCursor(fd.Body.List)
	s := sc.next()
	want := "if uint64(len(buf)) < encodeSize" + T + "(obj) { return encoder.ErrBufferUnderflow }"
	if c.es(s) != want {
		c.failf(posOf(s, fd), "encode: the first statement must be the buffer-size guard, got %q", c.es(s))
		return
	}
	s = sc.next()
	if c.es(s) != "e := &encoder.Encoder{ Buffer: buf[:], }" && c.es(s) != "e := &encoder.Encoder{Buffer: buf[:]}" {
		c.failf(posOf(s, fd), "encode: expected encoder over buf[:], got %q", c.es(s))
		return
	}
	c.encItems(sc, items, map[string]string{}, fd)
	s = sc.next()
	if c.es(s) != "return nil" || !sc.done() {
		c.failf(posOf(s, fd), "encode: expected `return nil` at the end, got %q", c.es(s))
	}
}

func (c *codecCheck) encItems(sc *stmtCursor, items []cItem, env map[string]string, fd *ast.FuncDecl) {
	for _, it := range items {
		if it.Omit {
			s := sc.next()
			ifs, ok := s.(*ast.IfStmt)
			if !ok || normLen(c.es(ifs.Cond), env) != "len("+it.Path+") != 0" || ifs.Else != nil {
				c.failf(posOf(s, fd), "encode: omitempty field %s must be guarded by `if len(..) != 0`, got %q", it.Path, c.es(s))
				return
			}
			inner := newCursor(ifs.Body.List)
			it2 := it
			it2.Omit = false
			c.encItems(inner, []cItem{it2}, env, fd)
			if !inner.done() {
				c.failf(ifs.Pos(), "encode: extra statements in omitempty block of %s", it.Path)
			}
			continue
		}
		s := sc.next()
		switch it.Kind {
		case "slice", "bytes", "string":
			if it.MaxLen > 0 {
				want := fmt.Sprintf("if len(%s) > %d { return encoder.ErrMaxLenExceeded }", it.Path, it.MaxLen)
				if normLen(c.es(s), env) != want {
					c.failf(posOf(s, fd), "encode: %s: expected maxlen check %q, got %q", it.Path, want, c.es(s))
					return
				}
				s = sc.next()
			}
			got := normLen(c.es(s), env)
			if !strings.HasPrefix(got, "if uint64(len("+it.Path+")) > math.MaxUint32 { return errors.New(") {
				if strings.Contains(got, "ErrMaxLenExceeded") {
					c.failf(posOf(s, fd), "encode: %s: maxlen check present but the field's tag has maxlen=%d: %q", it.Path, it.MaxLen, got)
				} else {
					c.failf(posOf(s, fd), "encode: %s: expected MaxUint32 length check, got %q", it.Path, got)
				}
				return
			}
			s = sc.next()
			if normLen(c.es(s), env) != "e.Uint32(uint32(len("+it.Path+")))" {
				c.failf(posOf(s, fd), "encode: %s: expected u32 length prefix, got %q", it.Path, c.es(s))
				return
			}
			s = sc.next()
			if it.Kind == "bytes" {
				if normPathCall(c.es(s), env) != "e.CopyBytes("+it.Path+")" {
					c.failf(posOf(s, fd), "encode: %s: expected CopyBytes of the slice, got %q", it.Path, c.es(s))
					return
				}
				continue
			}
			if it.Kind == "string" {
				if normPathCall(c.es(s), env) != "e.CopyBytes([]byte("+it.Path+"))" {
					c.failf(posOf(s, fd), "encode: %s: expected CopyBytes of the string, got %q", it.Path, c.es(s))
					return
				}
				continue
			}
			fs, ok := s.(*ast.RangeStmt)
			if !ok || normPath(c.es(fs.X), env) != it.Path || c.es(fs.Key) != "_" {
				c.failf(posOf(s, fd), "encode: %s: expected `for _, x := range %s`, got %q", it.Path, it.Path, c.es(s))
				return
			}
			env2 := copyEnv(env)
			env2[c.es(fs.Value)] = it.Path + "[]"
			inner := newCursor(fs.Body.List)
			c.encItems(inner, it.Elem, env2, fd)
			if !inner.done() {
				c.failf(fs.Pos(), "encode: %s: extra statements in the element loop", it.Path)
				return
			}
		case "bytesN":
			if normPathCall(c.es(s), env) != "e.CopyBytes("+it.Path+"[:])" {
				c.failf(posOf(s, fd), "encode: %s: expected CopyBytes(x[:]) of the %d-byte array, got %q", it.Path, it.N, c.es(s))
				return
			}
			if !c.arrayLenIs(s, it.N) {
				c.failf(posOf(s, fd), "encode: %s: array length is not %d", it.Path, it.N)
			}
		default:
			want := "e." + encMethod[it.Kind] + "(" + it.Path + ")"
			if normPathCall(c.es(s), env) != want {
				c.failf(posOf(s, fd), "encode: expected %q, got %q", want, c.es(s))
				return
			}
		}
	}
}

var callArgRe = regexp.MustCompile(`^(e\.[A-Za-z0-9]+)\((.*)\)$`)

func normPathCall(s string, env map[string]string) string {
	m := callArgRe.FindStringSubmatch(s)
	if m == nil {
		return s
	}
	arg := m[2]
	suffix := ""
	if strings.HasSuffix(arg, "[:]") {
		arg, suffix = arg[:len(arg)-3], "[:]"
	}
	pre, post := "", ""
	if strings.HasPrefix(arg, "[]byte(") && strings.HasSuffix(arg, ")") {
		pre, post = "[]byte(", ")"
		arg = arg[7 : len(arg)-1]
	}
	return m[1] + "(" + pre + normPath(arg, env) + post + suffix + ")"
}

// arrayLenIs: the CopyBytes/copy operand in s is an array of length n (type-checked).
func (c *codecCheck) arrayLenIs(s ast.Stmt, n int) bool {
	ok := false
	ast.Inspect(s, func(nd ast.Node) bool {
		if se, isSl := nd.(*ast.SliceExpr); isSl {
			if t := c.cf.pkg.TypesInfo.TypeOf(se.X); t != nil {
				if a, isA := t.Underlying().(*types.Array); isA && int(a.Len()) == n {
					ok = true
				}
			}
		}
		return true
	})
	return ok
}

// ---- decoder -------------------------------------------------------------

func (c *codecCheck) checkDecode(fd *ast.FuncDecl, items []cItem) {
	sc := newCursor(fd.Body.List)
	s := sc.next()
	if c.es(s) != "d := &encoder.Decoder{ Buffer: buf[:], }" && c.es(s) != "d := &encoder.Decoder{Buffer: buf[:]}" {
		c.failf(posOf(s, fd), "decode: expected decoder over buf[:], got %q", c.es(s))
		return
	}
	c.decItems(sc, items, fd)
	s = sc.next()
	if c.es(s) != "return uint64(len(buf) - len(d.Buffer)), nil" || !sc.done() {
		c.failf(posOf(s, fd), "decode: expected `return uint64(len(buf) - len(d.Buffer)), nil` at the end, got %q", c.es(s))
	}
}

const errRet = "if err != nil { return 0, err }"

func (c *codecCheck) decItems(sc *stmtCursor, items []cItem, fd *ast.FuncDecl) {
	np := func(s string) string { return normPath(s, nil) }
	for _, it := range items {
		s := sc.next()
		if it.Omit {
			if c.es(s) != "if len(d.Buffer) == 0 { return uint64(len(buf) - len(d.Buffer)), nil }" {
				c.failf(posOf(s, fd), "decode: omitempty field %s: expected early return on an exhausted buffer, got %q", it.Path, c.es(s))
				return
			}
			s = sc.next()
		}
		switch it.Kind {
		case "slice", "bytes", "string":
			if c.es(s) != "ul, err := d.Uint32()" {
				c.failf(posOf(s, fd), "decode: %s: expected u32 length prefix read, got %q", it.Path, c.es(s))
				return
			}
			if s = sc.next(); c.es(s) != errRet {
				c.failf(posOf(s, fd), "decode: %s: length read error must be returned, got %q", it.Path, c.es(s))
				return
			}
			if s = sc.next(); c.es(s) != "length := int(ul)" {
				c.failf(posOf(s, fd), "decode: %s: expected `length := int(ul)`, got %q", it.Path, c.es(s))
				return
			}
			if s = sc.next(); c.es(s) != "if length < 0 || length > len(d.Buffer) { return 0, encoder.ErrBufferUnderflow }" {
				c.failf(posOf(s, fd), "decode: %s: the length must be checked against the remaining buffer before anything is allocated, got %q", it.Path, c.es(s))
				return
			}
			s = sc.next()
			if it.MaxLen > 0 {
				want := fmt.Sprintf("if length > %d { return 0, encoder.ErrMaxLenExceeded }", it.MaxLen)
				if c.es(s) != want {
					c.failf(posOf(s, fd), "decode: %s: expected %q (struct tag maxlen=%d), got %q", it.Path, want, it.MaxLen, c.es(s))
					return
				}
				s = sc.next()
			} else if strings.Contains(c.es(s), "ErrMaxLenExceeded") {
				c.failf(posOf(s, fd), "decode: %s: maxlen check present but the field has no maxlen tag: %q", it.Path, c.es(s))
				return
			}
			ifs, ok := s.(*ast.IfStmt)
			if !ok || c.es(ifs.Cond) != "length != 0" || ifs.Else != nil {
				c.failf(posOf(s, fd), "decode: %s: expected `if length != 0 {…}`, got %q", it.Path, c.es(s))
				return
			}
			inner := newCursor(ifs.Body.List)
			s2 := inner.next()
			switch it.Kind {
			case "bytes":
				if np(c.es(s2)) != it.Path+" = make([]byte, length)" {
					c.failf(posOf(s2, fd), "decode: %s: expected allocation of exactly `length` bytes, got %q", it.Path, c.es(s2))
					return
				}
				if s2 = inner.next(); np(c.es(s2)) != "copy("+it.Path+"[:], d.Buffer[:length])" {
					c.failf(posOf(s2, fd), "decode: %s: expected copy of d.Buffer[:length], got %q", it.Path, c.es(s2))
					return
				}
				if s2 = inner.next(); c.es(s2) != "d.Buffer = d.Buffer[length:]" || !inner.done() {
					c.failf(posOf(s2, fd), "decode: %s: expected the buffer to advance by length, got %q", it.Path, c.es(s2))
					return
				}
			case "string":
				if np(c.es(s2)) != it.Path+" = string(d.Buffer[:length])" {
					c.failf(posOf(s2, fd), "decode: %s: expected string(d.Buffer[:length]), got %q", it.Path, c.es(s2))
					return
				}
				if s2 = inner.next(); c.es(s2) != "d.Buffer = d.Buffer[length:]" || !inner.done() {
					c.failf(posOf(s2, fd), "decode: %s: expected the buffer to advance by length, got %q", it.Path, c.es(s2))
					return
				}
			default:
				want := it.Path + " = make([]" + it.GoType + ", length)"
				if np(c.es(s2)) != want {
					c.failf(posOf(s2, fd), "decode: %s: expected %q, got %q", it.Path, want, c.es(s2))
					return
				}
				s2 = inner.next()
				fs, ok := s2.(*ast.RangeStmt)
				if !ok || np(c.es(fs.X)) != it.Path || fs.Value != nil {
					c.failf(posOf(s2, fd), "decode: %s: expected `for z := range %s`, got %q", it.Path, it.Path, c.es(s2))
					return
				}
				loop := newCursor(fs.Body.List)
				c.decItems(loop, it.Elem, fd)
				if !loop.done() || !inner.done() {
					c.failf(fs.Pos(), "decode: %s: extra statements in the element loop", it.Path)
					return
				}
			}
		case "bytesN":
			want := "if len(d.Buffer) < len(" + it.Path + ") { return 0, encoder.ErrBufferUnderflow }"
			if np(c.es(s)) != want {
				c.failf(posOf(s, fd), "decode: %s: expected %q, got %q", it.Path, want, c.es(s))
				return
			}
			if !c.lenOperandArray(s, it.N) {
				c.failf(posOf(s, fd), "decode: %s: guarded length is not the %d-byte array", it.Path, it.N)
			}
			if s = sc.next(); np(c.es(s)) != "copy("+it.Path+"[:], d.Buffer[:len("+it.Path+")])" {
				c.failf(posOf(s, fd), "decode: %s: expected copy of the array bytes, got %q", it.Path, c.es(s))
				return
			}
			if s = sc.next(); np(c.es(s)) != "d.Buffer = d.Buffer[len("+it.Path+"):]" {
				c.failf(posOf(s, fd), "decode: %s: expected the buffer to advance by the array length, got %q", it.Path, c.es(s))
				return
			}
		default:
			if c.es(s) != "i, err := d."+encMethod[it.Kind]+"()" {
				c.failf(posOf(s, fd), "decode: %s: expected d.%s(), got %q", it.Path, encMethod[it.Kind], c.es(s))
				return
			}
			if s = sc.next(); c.es(s) != errRet {
				c.failf(posOf(s, fd), "decode: %s: read error must be returned, got %q", it.Path, c.es(s))
				return
			}
			if s = sc.next(); np(c.es(s)) != it.Path+" = i" {
				c.failf(posOf(s, fd), "decode: expected `%s = i`, got %q", it.Path, c.es(s))
				return
			}
		}
	}
}

func (c *codecCheck) lenOperandArray(s ast.Stmt, n int) bool {
	ok := false
	ast.Inspect(s, func(nd ast.Node) bool {
		if ce, isC := nd.(*ast.CallExpr); isC {
			if id, isI := ce.Fun.(*ast.Ident); isI && id.Name == "len" && len(ce.Args) == 1 {
				if t := c.cf.pkg.TypesInfo.TypeOf(ce.Args[0]); t != nil {
					if a, isA := t.Underlying().(*types.Array); isA && int(a.Len()) == n {
						ok = true
					}
				}
			}
		}
		return true
	})
	return ok
}

func (c *codecCheck) checkExact(fd *ast.FuncDecl) {
	T := c.cf.name
	want := "{ if n, err := decode" + T + "(buf, obj); err != nil { return err } else if n != uint64(len(buf)) { return encoder.ErrRemainingBytes } return nil }"
	// the same test written with plain early returns
	alt := "{ n, err := decode" + T + "(buf, obj) if err != nil { return err } if n != uint64(len(buf)) { return encoder.ErrRemainingBytes } return nil }"
	if got := c.es(fd.Body); got != want && got != alt {
		c.failf(fd.Pos(), "exact decoder does not have the consumed==len(buf) shape: %q", c.es(fd.Body))
	}
}

func (c *codecCheck) checkEncodeWrapper(fd *ast.FuncDecl) {
	T := c.cf.name
	want := "{ n := encodeSize" + T + "(obj) buf := make([]byte, n) if err := encode" + T + "ToBuffer(buf, obj); err != nil { return nil, err } return buf, nil }"
	if c.es(fd.Body) != want {
		c.failf(fd.Pos(), "encode wrapper does not allocate exactly encodeSize bytes: %q", c.es(fd.Body))
	}
}

// findCodecFiles discovers generated codec files by their generator header and the
// function set, not by file name.
func (p *Program) findCodecFiles() []*codecFile {
	var out []*codecFile
	for _, pk := range p.Pkgs {
		for _, f := range pk.Syntax {
			gen := false
			for _, cg := range f.Comments {
				if cg.Pos() < f.Package && strings.Contains(cg.Text(), "Code generated by github.com/skycoin/skyencoder") {
					gen = true
				}
			}
			if !gen {
				continue
			}
			fn := p.Fset.Position(f.Pos()).Filename
			if strings.HasSuffix(fn, "_test.go") {
				continue
			}
			cf := &codecFile{pkg: pk, file: f, funcs: map[string]*ast.FuncDecl{}}
			for _, d := range f.Decls {
				if fd, ok := d.(*ast.FuncDecl); ok && fd.Recv == nil {
					cf.funcs[fd.Name.Name] = fd
					if strings.HasPrefix(fd.Name.Name, "encodeSize") {
						cf.name = strings.TrimPrefix(fd.Name.Name, "encodeSize")
						// parameter type *T
						if len(fd.Type.Params.List) == 1 {
							if t := pk.TypesInfo.TypeOf(fd.Type.Params.List[0].Type); t != nil {
								if pt, ok := t.(*types.Pointer); ok {
									cf.typ = pt.Elem()
								}
							}
						}
					}
				}
			}
			out = append(out, cf)
		}
	}
	return out
}
