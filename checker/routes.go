package main

import (
	"go/ast"
	"go/constant"
	"go/token"
	"sort"
	"strings"

	"golang.org/x/tools/go/ssa"
)

// Route table extraction (engine E11).

type Route struct {
	Path     string
	Version  string
	Handler  string              // constructor expression
	Methods  map[string][]string // method -> API sets ; nil = always enabled
	CSRF     bool
	Pos      token.Pos
	Dynamic  bool // path not a constant (static files loop)
	Register string
}

// ClosureByVar finds the anonymous function assigned to variable `name` inside fnRef.
func (p *Program) ClosureByVar(fnRef, name string) *ssa.Function {
	fn := p.Fn(fnRef)
	if fn == nil {
		return nil
	}
	file, _ := p.FileOf(fn.Pos())
	if file == nil {
		return nil
	}
	var litPos token.Pos
	ast.Inspect(file, func(n ast.Node) bool {
		as, ok := n.(*ast.AssignStmt)
		if !ok || len(as.Lhs) != 1 || len(as.Rhs) != 1 {
			return true
		}
		id, ok := as.Lhs[0].(*ast.Ident)
		fl, ok2 := as.Rhs[0].(*ast.FuncLit)
		if ok && ok2 && id.Name == name && as.Pos() > fn.Pos() {
			if litPos == token.NoPos {
				litPos = fl.Pos()
			}
		}
		return true
	})
	var find func(f *ssa.Function) *ssa.Function
	find = func(f *ssa.Function) *ssa.Function {
		for _, a := range f.AnonFuncs {
			if a.Pos() == litPos || (a.Syntax() != nil && a.Syntax().Pos() == litPos) {
				return a
			}
			if r := find(a); r != nil {
				return r
			}
		}
		return nil
	}
	return find(fn)
}

// extractRoutes constant-evaluates the registrations in api.newServerMux.
func (p *Program) extractRoutes() ([]Route, []string) {
	var routes []Route
	var problems []string
	pk := p.ByPath[pkgPath("api")]
	fn := p.Fn("api.newServerMux")
	if pk == nil || fn == nil {
		return nil, []string{"anchor-unresolved: api.newServerMux"}
	}
	var decl *ast.FuncDecl
	for _, f := range pk.Syntax {
		for _, d := range f.Decls {
			if fd, ok := d.(*ast.FuncDecl); ok && fd.Name.Name == "newServerMux" {
				decl = fd
			}
		}
	}
	if decl == nil {
		return nil, []string{"anchor-unresolved: newServerMux declaration"}
	}
	constStr := func(e ast.Expr) (string, bool) {
		if tv, ok := pk.TypesInfo.Types[e]; ok && tv.Value != nil && tv.Value.Kind() == constant.String {
			return constant.StringVal(tv.Value), true
		}
		return "", false
	}
	exprStr := func(e ast.Expr) string {
		c := &codecCheck{p: p}
		return c.es(e)
	}
	regs := map[string]bool{"webHandlerV1": true, "webHandlerV2": true, "webHandler": true, "csrfHandlerV1": true, "webHandlerWithOptionals": true}
	var inFuncLit int
	var visit func(n ast.Node) bool
	visit = func(n ast.Node) bool {
		switch x := n.(type) {
		case *ast.FuncLit:
			inFuncLit++
			ast.Inspect(x.Body, visit)
			inFuncLit--
			return false
		case *ast.CallExpr:
			id, ok := x.Fun.(*ast.Ident)
			if !ok || !regs[id.Name] {
				return true
			}
			if inFuncLit > 0 {
				return true // the registering closures calling each other
			}
			rt := Route{Pos: x.Pos(), Register: id.Name, CSRF: true}
			args := x.Args
			switch id.Name {
			case "webHandlerV1", "webHandlerV2":
				rt.Version = map[string]string{"webHandlerV1": "v1", "webHandlerV2": "v2"}[id.Name]
				if s, ok := constStr(args[0]); ok {
					rt.Path = "/api/" + rt.Version + s
				} else {
					rt.Dynamic = true
					rt.Path = exprStr(args[0])
				}
				rt.Handler = exprStr(args[1])
				rt.Methods = p.methodSets(pk, args[2], &problems)
			case "webHandler":
				if s, ok := constStr(args[0]); ok {
					rt.Version = map[string]string{"v1": "v1", "v2": "v2"}[s]
					if rt.Version == "" {
						rt.Version = s
					}
				}
				if s, ok := constStr(args[1]); ok {
					rt.Path = s
				} else {
					rt.Dynamic = true
					rt.Path = exprStr(args[1])
				}
				rt.Handler = exprStr(args[2])
				rt.Methods = p.methodSets(pk, args[3], &problems)
			case "csrfHandlerV1":
				rt.Version = "v1"
				rt.CSRF = false
				if s, ok := constStr(args[0]); ok {
					rt.Path = "/api/v1" + s
				}
				rt.Handler = exprStr(args[1])
			default:
				problems = append(problems, p.Pos(x.Pos())+": direct call of webHandlerWithOptionals outside the registering closures")
			}
			routes = append(routes, rt)
			return true
		}
		return true
	}
	ast.Inspect(decl.Body, visit)
	sort.Slice(routes, func(i, j int) bool { return routes[i].Path < routes[j].Path })
	return routes, problems
}

func (p *Program) methodSets(pk interface{}, e ast.Expr, problems *[]string) map[string][]string {
	apk := p.ByPath[pkgPath("api")]
	if id, ok := e.(*ast.Ident); ok && id.Name == "nil" {
		return nil
	}
	cl, ok := e.(*ast.CompositeLit)
	if !ok {
		*problems = append(*problems, p.Pos(e.Pos())+": methodAPISets is not a literal map")
		return map[string][]string{}
	}
	out := map[string][]string{}
	for _, el := range cl.Elts {
		kv, ok := el.(*ast.KeyValueExpr)
		if !ok {
			continue
		}
		mk := ""
		if tv, ok := apk.TypesInfo.Types[kv.Key]; ok && tv.Value != nil {
			mk = constant.StringVal(tv.Value)
		}
		var sets []string
		if vl, ok := kv.Value.(*ast.CompositeLit); ok {
			for _, se := range vl.Elts {
				if tv, ok := apk.TypesInfo.Types[se]; ok && tv.Value != nil {
					sets = append(sets, constant.StringVal(tv.Value))
				} else {
					*problems = append(*problems, p.Pos(se.Pos())+": API set is not a constant")
				}
			}
		}
		if mk == "" {
			*problems = append(*problems, p.Pos(kv.Pos())+": method key is not a constant")
		}
		sort.Strings(sets)
		out[mk] = sets
	}
	return out
}

func routeKey(r Route) string {
	var ms []string
	for m, s := range r.Methods {
		ms = append(ms, m+"="+strings.Join(s, "|"))
	}
	sort.Strings(ms)
	sets := strings.Join(ms, ",")
	if r.Methods == nil {
		sets = "ALWAYS"
	}
	csrf := "csrf"
	if !r.CSRF {
		csrf = "nocsrf"
	}
	return r.Path + " " + sets + " " + csrf
}
