package main

import (
	"fmt"
	"go/constant"
	"go/token"
	"go/types"
	"regexp"
	"sort"
	"strings"

	"golang.org/x/tools/go/ssa"
)

// Term rendering (engine E3, §2.3 of DESIGN.md): every SSA value is rendered as a
// normalised access-path / expression string.  go/ssa performs no CSE, so two loads
// of txn.In are distinct values; rendering both as "$0.In" identifies them.
//
//   $k                   k-th parameter (receiver is $0 for methods)
//   ^name                free variable of a closure
//   X.f                  field (address and loaded value share the path)
//   X[i]                 element; i/j/k are the induction variables of the
//                        enclosing loops by nesting depth
//   pkg.F(args)#n        n-th result of a call
//   fold[init; step]     loop accumulator  acc = φ(init, step(acc))
//   set{k}               a map made in this function, with the keys stored into it
//   {f: v, …}            a local struct, with the values stored into its fields
//   φ(a|b)               any other φ
//
// Terms are strings; equality of strings is the (syntactic, conservative)
// equality of terms.

const maxTermDepth = 14

type termCtx struct {
	ff        *FuncFacts
	progress  map[*ssa.Phi]string // φ currently being unfolded -> placeholder
	allocBusy map[*ssa.Alloc]int
}

func (ff *FuncFacts) Term(v ssa.Value) string {
	if s, ok := ff.terms[v]; ok {
		return s
	}
	tc := &termCtx{ff: ff, progress: map[*ssa.Phi]string{}}
	s := tc.term(v, 0)
	ff.terms[v] = s
	return s
}

func constStr(c *ssa.Const) string {
	if c.Value == nil {
		if isZeroable(c.Type()) {
			return "zero"
		}
		return "nil"
	}
	switch c.Value.Kind() {
	case constant.String:
		return fmt.Sprintf("%q", constant.StringVal(c.Value))
	case constant.Bool:
		return c.Value.String()
	default:
		return c.Value.ExactString()
	}
}

func isZeroable(t types.Type) bool {
	switch t.Underlying().(type) {
	case *types.Struct, *types.Array:
		return true
	}
	return false
}

func typeShort(t types.Type) string {
	return types.TypeString(t, func(p *types.Package) string { return shortPkg(p.Path()) })
}

func (tc *termCtx) term(v ssa.Value, d int) string {
	if d > maxTermDepth {
		return "…"
	}
	ff := tc.ff
	switch v := v.(type) {
	case *ssa.Const:
		return constStr(v)
	case *ssa.Parameter:
		for i, p := range v.Parent().Params {
			if p == v {
				return fmt.Sprintf("$%d", i)
			}
		}
		return "$?"
	case *ssa.FreeVar:
		// a captured variable is named by what the enclosing function binds to it (rename-proof):
		// "^" + the enclosing function's term for the bound variable
		if t, ok := ff.freeVarTerm(v); ok {
			return "^" + t
		}
		// unresolvable / unwieldy binding: name the capture by its type
		ft := v.Type()
		if p, ok := ft.Underlying().(*types.Pointer); ok {
			ft = p.Elem()
		}
		return "^" + typeShort(ft)
	case *ssa.Global:
		pk := ""
		if v.Pkg != nil {
			pk = shortPkg(v.Pkg.Pkg.Path()) + "."
		}
		return pk + v.Name()
	case *ssa.Function:
		return FnName(v)
	case *ssa.Builtin:
		return v.Name()
	case *ssa.FieldAddr:
		st := derefStruct(v.X.Type())
		name := fmt.Sprintf("#%d", v.Field)
		if st != nil {
			name = st.Field(v.Field).Name()
		}
		return tc.term(v.X, d+1) + "." + name
	case *ssa.Field:
		st, _ := v.X.Type().Underlying().(*types.Struct)
		name := fmt.Sprintf("#%d", v.Field)
		if st != nil {
			name = st.Field(v.Field).Name()
		}
		return tc.term(v.X, d+1) + "." + name
	case *ssa.IndexAddr:
		return tc.term(v.X, d+1) + "[" + tc.term(v.Index, d+1) + "]"
	case *ssa.Index:
		return tc.term(v.X, d+1) + "[" + tc.term(v.Index, d+1) + "]"
	case *ssa.Lookup:
		s := tc.term(v.X, d+1) + "[" + tc.term(v.Index, d+1) + "]"
		if v.CommaOk {
			return "lookup(" + s + ")"
		}
		return s
	case *ssa.UnOp:
		switch v.Op {
		case token.MUL: // load
			if a, ok := v.X.(*ssa.Alloc); ok {
				return tc.loadAlloc(a, v, d)
			}
			return tc.term(v.X, d+1)
		case token.NOT:
			return "!" + tc.term(v.X, d+1)
		case token.ARROW:
			return "<-" + tc.term(v.X, d+1)
		default:
			return v.Op.String() + tc.term(v.X, d+1)
		}
	case *ssa.BinOp:
		if name, ok := ff.inductionAlias[v]; ok {
			return name
		}
		return "(" + tc.term(v.X, d+1) + " " + v.Op.String() + " " + tc.term(v.Y, d+1) + ")"
	case *ssa.Call:
		return tc.callAt(&v.Call, v, d)
	case *ssa.Extract:
		if c, ok := v.Tuple.(*ssa.Call); ok {
			if f := c.Call.StaticCallee(); f != nil {
				if rt, ok := tc.ff.P.valueHelperN(f, v.Index); ok {
					var args []string
					for _, a := range c.Call.Args {
						args = append(args, tc.term(a, d+1))
					}
					return substParams(rt, args)
				}
			}
		}
		return tc.term(v.Tuple, d+1) + fmt.Sprintf("#%d", v.Index)
	case *ssa.Phi:
		return tc.phi(v, d)
	case *ssa.Alloc:
		return tc.allocAddr(v, d)
	case *ssa.MakeInterface:
		return tc.term(v.X, d+1)
	case *ssa.ChangeInterface:
		return tc.term(v.X, d+1)
	case *ssa.ChangeType:
		return tc.term(v.X, d+1)
	case *ssa.Convert:
		from, to := v.X.Type().Underlying(), v.Type().Underlying()
		if types.Identical(from, to) {
			return tc.term(v.X, d+1)
		}
		return typeShort(v.Type()) + "(" + tc.term(v.X, d+1) + ")"
	case *ssa.SliceToArrayPointer:
		return tc.term(v.X, d+1)
	case *ssa.Slice:
		if a, ok := v.X.(*ssa.Alloc); ok && v.Low == nil && v.High == nil {
			if lit, ok := tc.arrayLiteral(a, d); ok {
				return lit // variadic argument list / array literal: [a, b, c]
			}
		}
		lo, hi := "", ""
		if v.Low != nil {
			lo = tc.term(v.Low, d+1)
		}
		if v.High != nil {
			hi = tc.term(v.High, d+1)
		}
		s := tc.term(v.X, d+1) + "[" + lo + ":" + hi
		if v.Max != nil {
			s += ":" + tc.term(v.Max, d+1)
		}
		return s + "]"
	case *ssa.TypeAssert:
		s := tc.term(v.X, d+1) + ".(" + typeShort(v.AssertedType) + ")"
		return s
	case *ssa.MakeMap:
		return tc.makeMap(v, d)
	case *ssa.MakeSlice:
		return "make(" + typeShort(v.Type()) + ", " + tc.term(v.Len, d+1) + ")"
	case *ssa.MakeChan:
		return "makechan@" + v.Name()
	case *ssa.MakeClosure:
		return "closure(" + FnName(v.Fn.(*ssa.Function)) + ")"
	case *ssa.Range:
		return "range(" + tc.term(v.X, d+1) + ")"
	case *ssa.Next:
		return "next(" + tc.term(v.Iter, d+1) + ")"
	case *ssa.Select:
		return "select@" + v.Name()
	}
	return fmt.Sprintf("?%T", v)
}

func derefStruct(t types.Type) *types.Struct {
	if p, ok := t.Underlying().(*types.Pointer); ok {
		t = p.Elem()
	}
	st, _ := t.Underlying().(*types.Struct)
	return st
}

// call renders a call.  Two distinct call instructions with the same callee and
// argument terms are NOT assumed to return the same value (the state they read may
// have changed in between): the second and later ones, in block/instruction order,
// carry a "@k" suffix.
func (tc *termCtx) call(c *ssa.CallCommon, d int) string {
	return tc.callAt(c, nil, d)
}

func (tc *termCtx) callAt(c *ssa.CallCommon, at *ssa.Call, d int) string {
	s := tc.callBase(c, d)
	if at == nil {
		return s
	}
	if _, isBuiltin := c.Value.(*ssa.Builtin); isBuiltin {
		return s
	}
	if k := tc.ff.callOrdinal(at, s); k > 1 {
		// insert the ordinal before the argument list: F@2(args)
		if i := strings.Index(s, "("); i > 0 {
			return s[:i] + fmt.Sprintf("@%d", k) + s[i:]
		}
	}
	return s
}

func (tc *termCtx) callBase(c *ssa.CallCommon, d int) string {
	var args []string
	for _, a := range c.Args {
		args = append(args, tc.term(a, d+1))
	}
	if c.IsInvoke() {
		return "iface:" + typeShort(c.Value.Type()) + "." + c.Method.Name() + "(" + strings.Join(append([]string{tc.term(c.Value, d+1)}, args...), ", ") + ")"
	}
	switch f := c.Value.(type) {
	case *ssa.Function:
		if k, suffix, ok := tc.ff.P.getter(f); ok && k < len(args) {
			return args[k] + suffix // trivial accessor, e.g. Block.Seq() = .Head.BkSeq
		}
		if rt, ok := tc.ff.P.valueHelper(f); ok {
			return substParams(rt, args) // single-use unexported helper: transparent (extract-function refactors)
		}
		return FnName(f) + "(" + strings.Join(args, ", ") + ")"
	case *ssa.Builtin:
		return f.Name() + "(" + strings.Join(args, ", ") + ")"
	case *ssa.MakeClosure:
		return FnName(f.Fn.(*ssa.Function)) + "(" + strings.Join(args, ", ") + ")"
	}
	return "dyn:" + tc.term(c.Value, d+1) + "(" + strings.Join(args, ", ") + ")"
}

func (tc *termCtx) phi(v *ssa.Phi, d int) string {
	ff := tc.ff
	if name, ok := ff.inductionPhi[v]; ok {
		return name
	}
	if ph, ok := tc.progress[v]; ok {
		return ph
	}
	lp := ff.headerLoop[v.Block()]
	if lp != nil {
		// accumulator: init from outside the loop, step(s) from the latches
		var inits, steps []ssa.Value
		for i, pred := range v.Block().Preds {
			if lp.Blocks[pred] {
				if v.Edges[i] != v {
					steps = append(steps, v.Edges[i])
				}
			} else {
				inits = append(inits, v.Edges[i])
			}
		}
		ph := "acc"
		if len(tc.progress) > 0 {
			ph = fmt.Sprintf("acc%d", len(tc.progress)+1)
		}
		tc.progress[v] = ph
		is := uniqTerms(tc, inits, d)
		ss := uniqTerms(tc, steps, d)
		delete(tc.progress, v)
		// an empty made slice and a nil slice are the same accumulator start (pre-sizing is not a change)
		for i, t := range is {
			if emptyMakeRe.MatchString(t) {
				is[i] = "nil"
			}
		}
		return "fold[" + ph + "=" + strings.Join(is, "|") + "; " + strings.Join(ss, " | ") + "]"
	}
	tc.progress[v] = "↺"
	alts := uniqTerms(tc, v.Edges, d)
	delete(tc.progress, v)
	if len(alts) == 1 {
		return alts[0]
	}
	return "φ(" + strings.Join(alts, "|") + ")"
}

func uniqTerms(tc *termCtx, vs []ssa.Value, d int) []string {
	seen := map[string]bool{}
	var out []string
	for _, e := range vs {
		s := tc.term(e, d+1)
		if !seen[s] {
			seen[s] = true
			out = append(out, s)
		}
	}
	sort.Strings(out)
	return out
}

// loadAlloc renders a load from a local variable cell.  A cell with a single store
// is forwarded; a struct cell is rendered from the stores to its fields.
func (tc *termCtx) loadAlloc(a *ssa.Alloc, load ssa.Instruction, d int) string {
	var stores []*ssa.Store
	fieldStores := map[string][]ssa.Value{}
	escapes := false
	for _, r := range *a.Referrers() {
		switch r := r.(type) {
		case *ssa.Store:
			if r.Addr == a {
				stores = append(stores, r)
			} else {
				escapes = true
			}
		case *ssa.UnOp, *ssa.DebugRef:
		case *ssa.FieldAddr:
			st := derefStruct(a.Type())
			name := fmt.Sprintf("#%d", r.Field)
			if st != nil {
				name = st.Field(r.Field).Name()
			}
			for _, rr := range *r.Referrers() {
				if s, ok := rr.(*ssa.Store); ok && s.Addr == r {
					fieldStores[name] = append(fieldStores[name], s.Val)
				}
			}
		default:
			escapes = true
		}
	}
	_ = escapes
	if len(stores) == 1 && len(fieldStores) == 0 {
		return tc.term(stores[0].Val, d+1)
	}
	if len(stores) > 1 && load != nil && len(fieldStores) == 0 {
		// flow-sensitive: the stores that may reach this load
		if tc.allocBusy == nil {
			tc.allocBusy = map[*ssa.Alloc]int{}
		}
		if tc.allocBusy[a] < 2 {
			tc.allocBusy[a]++
			vals, zero := reachingStores(a, load)
			var alts []ssa.Value
			for _, st := range vals {
				alts = append(alts, st.Val)
			}
			ts := uniqTerms(tc, alts, d)
			tc.allocBusy[a]--
			if zero {
				ts = append(ts, "zero")
			}
			if len(ts) == 1 {
				return ts[0]
			}
			if len(ts) > 1 && len(ts) <= 4 {
				return "φ(" + strings.Join(ts, "|") + ")"
			}
		} else {
			return "↺"
		}
	}
	if len(fieldStores) > 0 && len(stores) <= 1 {
		base := ""
		if len(stores) == 1 {
			base = tc.term(stores[0].Val, d+1)
		}
		var names []string
		for k := range fieldStores {
			names = append(names, k)
		}
		sort.Strings(names)
		var parts []string
		for _, k := range names {
			parts = append(parts, k+": "+strings.Join(uniqTerms(tc, fieldStores[k], d), "|"))
		}
		return base + "{" + strings.Join(parts, ", ") + "}"
	}
	if len(stores) == 0 {
		return "local:" + allocName(a)
	}
	return "var:" + allocName(a)
}

// allocName names a local for terms.  Compiler-made temporaries keep go/ssa's label; a source
// variable is named by its TYPE (plus an ordinal among the function's variables of that type, in
// declaration order), never by its identifier, so that renaming a local does not change any term.
var syntheticAlloc = map[string]bool{"makeslice": true, "new": true, "complit": true, "varargs": true, "slicelit": true}

var allocNames = map[*ssa.Function]map[*ssa.Alloc]string{}

func allocName(a *ssa.Alloc) string {
	if a.Comment == "" {
		return a.Name()
	}
	if syntheticAlloc[a.Comment] {
		return a.Comment
	}
	fn := a.Parent()
	if fn == nil {
		return a.Comment
	}
	m, ok := allocNames[fn]
	if !ok {
		m = map[*ssa.Alloc]string{}
		var all []*ssa.Alloc
		for _, l := range fn.Locals {
			all = append(all, l)
		}
		for _, b := range fn.Blocks {
			for _, in := range b.Instrs {
				if al, ok := in.(*ssa.Alloc); ok && al.Heap {
					all = append(all, al)
				}
			}
		}
		sort.SliceStable(all, func(i, j int) bool { return all[i].Pos() < all[j].Pos() })
		count := map[string]int{}
		for _, al := range all {
			if al.Comment == "" || syntheticAlloc[al.Comment] {
				continue
			}
			t := al.Type()
			if p, ok := t.Underlying().(*types.Pointer); ok {
				t = p.Elem()
			}
			tn := typeShort(t)
			count[tn]++
			if count[tn] == 1 {
				m[al] = tn
			} else {
				m[al] = fmt.Sprintf("%s#%d", tn, count[tn])
			}
		}
		allocNames[fn] = m
	}
	if n, ok := m[a]; ok {
		return n
	}
	return a.Comment
}

func (tc *termCtx) allocAddr(a *ssa.Alloc, d int) string {
	// address of a local: render like its content so that "&x.f" paths and "x.f"
	// loads coincide
	return tc.loadAlloc(a, nil, d)
}

func (tc *termCtx) makeMap(m *ssa.MakeMap, d int) string {
	var keys []ssa.Value
	for _, r := range *m.Referrers() {
		if u, ok := r.(*ssa.MapUpdate); ok && u.Map == m {
			keys = append(keys, u.Key)
		}
	}
	if len(keys) == 0 {
		return "map{}"
	}
	return "set{" + strings.Join(uniqTerms(tc, keys, d), "|") + "}"
}

var getterRe = regexp.MustCompile(`^\$(\d+)((\.[A-Za-z_][A-Za-z_0-9]*)+)$`)

// getter recognises module accessors whose body is "return <param>.<field path>".
func (p *Program) getter(f *ssa.Function) (int, string, bool) {
	if g, ok := p.getters[f]; ok {
		return g.k, g.suffix, g.ok
	}
	res := getterInfo{}
	if f.Blocks != nil && len(f.Blocks) == 1 && InModule(f) && f.Signature.Results().Len() == 1 {
		b := f.Blocks[0]
		pure := true
		for _, in := range b.Instrs {
			switch in.(type) {
			case *ssa.FieldAddr, *ssa.Field, *ssa.UnOp, *ssa.Return, *ssa.DebugRef, *ssa.Alloc, *ssa.Store:
			default:
				pure = false
			}
		}
		if ret, ok := b.Instrs[len(b.Instrs)-1].(*ssa.Return); ok && pure && len(ret.Results) == 1 {
			p.getters[f] = res // recursion guard
			t := p.Facts(f).Term(ret.Results[0])
			if m := getterRe.FindStringSubmatch(t); m != nil {
				fmt.Sscanf(m[1], "%d", &res.k)
				res.suffix = m[2]
				res.ok = true
			}
		}
	}
	p.getters[f] = res
	return res.k, res.suffix, res.ok
}

type getterInfo struct {
	k      int
	suffix string
	ok     bool
}

// callOrdinal: 1-based position of call among the calls of the function whose
// callee name and argument count are the same and whose base rendering equals base.
func (ff *FuncFacts) callOrdinal(call *ssa.Call, base string) int {
	if ff.callOrd == nil {
		ff.callOrd = map[*ssa.Call]int{}
		ff.callGroups = map[string][]*ssa.Call{}
	}
	if k, ok := ff.callOrd[call]; ok {
		return k
	}
	name := calleeName(&call.Call)
	// candidates: same callee name
	var cands []*ssa.Call
	for _, b := range ff.Fn.Blocks {
		for _, in := range b.Instrs {
			if c, ok := in.(*ssa.Call); ok && calleeName(&c.Call) == name && len(c.Call.Args) == len(call.Call.Args) {
				cands = append(cands, c)
			}
		}
	}
	if len(cands) <= 1 {
		ff.callOrd[call] = 1
		return 1
	}
	tc := &termCtx{ff: ff, progress: map[*ssa.Phi]string{}}
	k := 0
	res := 1
	for _, c := range cands {
		if ff.inOrdinal[c] {
			continue
		}
		if ff.inOrdinal == nil {
			ff.inOrdinal = map[*ssa.Call]bool{}
		}
		ff.inOrdinal[c] = true
		b := tc.callBase(&c.Call, 1)
		delete(ff.inOrdinal, c)
		if b == base || c == call {
			k++
			if c == call {
				res = k
			}
		}
	}
	ff.callOrd[call] = res
	return res
}

// arrayLiteral renders a local array whose elements are each stored once at a
// constant index (the compiler's lowering of f(xs...) and of array literals).
func (tc *termCtx) arrayLiteral(a *ssa.Alloc, d int) (string, bool) {
	arr, ok := derefArray(a.Type())
	if !ok || arr.Len() > 8 {
		return "", false
	}
	elems := make([]string, arr.Len())
	for _, r := range *a.Referrers() {
		switch r := r.(type) {
		case *ssa.IndexAddr:
			idx, ok := constInt(r.Index)
			if !ok || !idx.IsInt64() || idx.Int64() < 0 || idx.Int64() >= arr.Len() {
				return "", false
			}
			n := 0
			for _, rr := range *r.Referrers() {
				if st, ok := rr.(*ssa.Store); ok && st.Addr == r {
					n++
					elems[idx.Int64()] = tc.term(st.Val, d+1)
				}
			}
			if n != 1 {
				return "", false
			}
		case *ssa.Slice, *ssa.DebugRef:
		default:
			return "", false
		}
	}
	for i, e := range elems {
		if e == "" {
			elems[i] = "zero"
		}
	}
	return "[" + strings.Join(elems, ", ") + "]", true
}

// reachingStores returns the stores to cell a that may be the last one executed
// before `load` (standard reaching definitions over the CFG); zero=true when the
// load can be reached without any store (the zero value).
func reachingStores(a *ssa.Alloc, load ssa.Instruction) (out []*ssa.Store, zero bool) {
	lastStoreBefore := func(b *ssa.BasicBlock, limit ssa.Instruction) *ssa.Store {
		var last *ssa.Store
		for _, in := range b.Instrs {
			if in == limit {
				break
			}
			if s, ok := in.(*ssa.Store); ok && s.Addr == a {
				last = s
			}
		}
		return last
	}
	if s := lastStoreBefore(load.Block(), load); s != nil {
		return []*ssa.Store{s}, false
	}
	seen := map[*ssa.BasicBlock]bool{}
	found := map[*ssa.Store]bool{}
	var walk func(b *ssa.BasicBlock)
	walk = func(b *ssa.BasicBlock) {
		if len(b.Preds) == 0 {
			zero = true
		}
		for _, p := range b.Preds {
			if seen[p] {
				continue
			}
			seen[p] = true
			if s := lastStoreBefore(p, nil); s != nil {
				if !found[s] {
					found[s] = true
					out = append(out, s)
				}
				continue
			}
			walk(p)
		}
	}
	walk(load.Block())
	sort.Slice(out, func(i, j int) bool { return out[i].Pos() < out[j].Pos() })
	return
}

var emptyMakeRe = regexp.MustCompile(`^make\(\[\][^,]*, 0\)$`)

var paramRe = regexp.MustCompile(`(^|[^A-Za-z0-9_])\$(\^*\d)`)

var freeVarMemo = map[*ssa.FreeVar]string{}
var freeVarBusy = map[*ssa.FreeVar]bool{}

// freeVarTerm resolves a closure's free variable through the MakeClosure bindings of its parent.
func (ff *FuncFacts) freeVarTerm(v *ssa.FreeVar) (string, bool) {
	if t, ok := freeVarMemo[v]; ok {
		return t, t != ""
	}
	if freeVarBusy[v] {
		return "", false
	}
	freeVarBusy[v] = true
	defer delete(freeVarBusy, v)
	fn := v.Parent()
	par := fn.Parent()
	if par == nil {
		return "", false
	}
	idx := -1
	for i, f := range fn.FreeVars {
		if f == v {
			idx = i
		}
	}
	var mc *ssa.MakeClosure
	for _, b := range par.Blocks {
		for _, in := range b.Instrs {
			if m, ok := in.(*ssa.MakeClosure); ok && m.Fn == fn {
				mc = m
			}
		}
	}
	if mc == nil || idx < 0 || idx >= len(mc.Bindings) {
		freeVarMemo[v] = ""
		return "", false
	}
	t := ff.P.Facts(par).Term(mc.Bindings[idx])
	t = strings.TrimPrefix(t, "^")
	// parameters of the enclosing function are written $^k inside a captured term
	t = paramRe.ReplaceAllString(t, "$1$$^$2")
	if strings.Contains(t, "…") || len(t) > 120 {
		freeVarMemo[v] = ""
		return "", false
	}
	freeVarMemo[v] = t
	return t, true
}

// ---- single-use helpers -------------------------------------------------------------------
// An unexported function with exactly one static call site in the module is treated as part of its
// caller (the result of an extract-function refactor): a value helper's call is rendered as its return
// term with the arguments substituted, a check helper's success facts are imported at "ok(call)".

var staticCallSites map[*ssa.Function]int

func (p *Program) singleUse(f *ssa.Function) bool {
	if f == nil || f.Blocks == nil || !InModule(f) || f.Parent() != nil || f.Name() == "" {
		return false
	}
	// functions the rule tables name are anchors, never dissolved into their caller
	if anchoredName(FnName(f)) {
		return false
	}
	if c := f.Name()[0]; c < 'a' || c > 'z' {
		return false
	}
	if staticCallSites == nil {
		staticCallSites = map[*ssa.Function]int{}
		for _, g := range p.ModFns {
			for _, b := range g.Blocks {
				for _, in := range b.Instrs {
					if ci, ok := in.(ssa.CallInstruction); ok {
						if cal := ci.Common().StaticCallee(); cal != nil {
							staticCallSites[cal]++
						}
					}
					// a function used as a value is not single-use
					for _, op := range in.Operands(nil) {
						if op != nil && *op != nil {
							if fv, ok := (*op).(*ssa.Function); ok {
								if ci, isCall := in.(ssa.CallInstruction); !isCall || ci.Common().Value != fv {
									staticCallSites[fv] += 2
								}
							}
						}
					}
				}
			}
		}
	}
	return staticCallSites[f] == 1
}

var helperMemo = map[*ssa.Function]string{}
var helperBusy = map[*ssa.Function]bool{}

func cleanHelperTerm(t string) bool {
	return t != "" && len(t) < 500 && !strings.Contains(t, "…") && !strings.Contains(t, "local:") && !strings.Contains(t, "var:") && !strings.Contains(t, "^") && !strings.Contains(t, "↺")
}

// valueHelper: f is a single-use helper with one result whose every return has the same clean term.
func (p *Program) valueHelper(f *ssa.Function) (string, bool) {
	if t, ok := helperMemo[f]; ok {
		return t, t != ""
	}
	helperMemo[f] = ""
	if !p.singleUse(f) || f.Signature.Results().Len() != 1 || helperBusy[f] {
		return "", false
	}
	helperBusy[f] = true
	defer delete(helperBusy, f)
	ff := p.Facts(f)
	rt := ""
	for _, b := range f.Blocks {
		if ret, ok := b.Instrs[len(b.Instrs)-1].(*ssa.Return); ok {
			t := ff.Term(ret.Results[0])
			if rt != "" && rt != t {
				return "", false
			}
			rt = t
		}
	}
	if !cleanHelperTerm(rt) {
		return "", false
	}
	helperMemo[f] = rt
	return rt, true
}

var substRe = regexp.MustCompile(`\$(\d+)`)

// substParams replaces the callee's parameter tokens $k by the caller's argument terms.
func substParams(t string, args []string) string {
	// leave "$^k" (a captured term's outer parameter) alone: it never matches \$\d
	return substRe.ReplaceAllStringFunc(t, func(m string) string {
		var k int
		fmt.Sscanf(m[1:], "%d", &k)
		if k < len(args) {
			return args[k]
		}
		return m
	})
}

// checkHelperFacts: atoms (in the callee's own $k terms) that hold at every success exit of a single-use
// helper whose last result is an error.
var checkHelperMemo = map[*ssa.Function][]string{}

func (p *Program) checkHelperFacts(f *ssa.Function) []string {
	if fs, ok := checkHelperMemo[f]; ok {
		return fs
	}
	checkHelperMemo[f] = nil
	res := f.Signature.Results()
	isBool := func(t types.Type) bool {
		b, ok := t.Underlying().(*types.Basic)
		return ok && b.Kind() == types.Bool
	}
	if !p.singleUse(f) || res.Len() == 0 || helperBusy[f] || !(isErrorType(res.At(res.Len()-1).Type()) || res.Len() == 1 && isBool(res.At(0).Type())) {
		return nil
	}
	helperBusy[f] = true
	defer delete(helperBusy, f)
	ff := p.Facts(f)
	exits, facts := ff.SuccessFacts()
	if len(exits) == 0 {
		return nil
	}
	count := map[string]int{}
	for _, fs := range facts {
		seen := map[string]bool{}
		for _, a := range fs {
			if !seen[a] {
				seen[a] = true
				count[a]++
			}
		}
	}
	var out []string
	for a, n := range count {
		if n == len(exits) && cleanHelperTerm(a) {
			out = append(out, a)
		}
	}
	sort.Strings(out)
	checkHelperMemo[f] = out
	return out
}

// attribute: the function a program point belongs to for ownership rules, and the facts known there.
// A point inside a single-use helper belongs to the helper's caller: its facts are the caller's facts at
// the call site plus the helper's own (with the arguments substituted).
func (p *Program) attribute(fn *ssa.Function, b *ssa.BasicBlock) (*ssa.Function, []string) {
	ff := p.Facts(fn)
	var facts []string
	for _, a := range ff.Must(b) {
		facts = append(facts, a.S)
	}
	for d := 0; d < 3 && p.singleUse(fn); d++ {
		var site ssa.CallInstruction
		var caller *ssa.Function
		for _, g := range p.ModFns {
			for _, gb := range g.Blocks {
				for _, in := range gb.Instrs {
					if ci, ok := in.(ssa.CallInstruction); ok && ci.Common().StaticCallee() == fn {
						site, caller = ci, g
					}
				}
			}
		}
		if site == nil {
			break
		}
		cf := p.Facts(caller)
		var args []string
		for _, a := range site.Common().Args {
			args = append(args, cf.Term(a))
		}
		for i, f := range facts {
			facts[i] = substParams(f, args)
		}
		for _, a := range cf.Must(site.Block()) {
			facts = append(facts, a.S)
		}
		fn = caller
	}
	return fn, facts
}

var helperNMemo = map[string]string{}

// valueHelperN: result k of a single-use helper with signature (..., error): the term of that result on
// the success returns (error result nil), when all of them agree and the term is self-contained.
func (p *Program) valueHelperN(f *ssa.Function, k int) (string, bool) {
	key := fmt.Sprintf("%p/%d", f, k)
	if t, ok := helperNMemo[key]; ok {
		return t, t != ""
	}
	helperNMemo[key] = ""
	res := f.Signature.Results()
	if res.Len() < 2 || k >= res.Len()-1 || !isErrorType(res.At(res.Len()-1).Type()) || !p.singleUse(f) || helperBusy[f] {
		return "", false
	}
	helperBusy[f] = true
	defer delete(helperBusy, f)
	ff := p.Facts(f)
	rt := ""
	for _, b := range f.Blocks {
		ret, ok := b.Instrs[len(b.Instrs)-1].(*ssa.Return)
		if !ok || len(ret.Results) != res.Len() {
			continue
		}
		if c, ok := ret.Results[res.Len()-1].(*ssa.Const); !ok || !c.IsNil() {
			continue // an error return: its value results are not used by callers that check the error
		}
		t := ff.Term(ret.Results[k])
		if rt != "" && rt != t {
			return "", false
		}
		rt = t
	}
	if !cleanHelperTerm(rt) {
		return "", false
	}
	helperNMemo[key] = rt
	return rt, true
}
