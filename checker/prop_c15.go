package main

import (
	"fmt"
	"go/constant"
	"go/token"
	"go/types"
	"sort"
	"strings"

	"golang.org/x/tools/go/ssa"
)

func init() { props["C15"] = checkC15 }

func checkC15(r *Run) {
	r.Explain = "C15, structural clauses: (R1) the decoder's table is built as the exact inverse of the encoder's table (every slot reset to -1, then decode[encode[i]] = i for every i) from a 58-byte alphabet of distinct 7-bit characters whose zero digit is '1', the character both sides use for leading zero bytes; (R2) Decode succeeds only for non-empty strings all of whose runes are <= 127 and map to a digit (!= -1), the digit fed into the accumulator is the table entry of that same rune, table lookups are in range and no input-derived value is narrowed without a range check; (R3) the textual address reader and writer agree on the byte layout (key, version, checksum offsets, total length), AddressFromBytes succeeds only with the exact length, a checksum equal to the recomputed one and version 0, DecodeBase58Address is Decode followed by AddressFromBytes, String is Encode(Bytes), the checksum is the first 4 bytes of SHA256(key||version)."
	r.NotDec = "agreement of the limb arithmetic of the fast encoder/decoder with the big-integer definition (numeric), sufficiency of the 138/100 buffer estimate; these are index-checked at run time, a violation panics"
	ruleUntransformedText(r, "C15-R5", 20, "cipher.DecodeBase58Address", "cipher.MustDecodeBase58Address", "cipher/base58.Decode")
	const dec = "cipher/base58.fastBase58DecodingAlphabet"
	const enc = "cipher/base58.fastBase58EncodingAlphabet"
	// R1 tables
	const na = "cipher/base58.NewAlphabet"
	if fn := r.fn("C15-R1", na); fn != nil {
		ff := r.P.Facts(fn)
		reset, inv := false, false
		for _, s := range ff.StoreFacts() {
			lp := ff.innermost[s.In.Block()]
			if lp == nil || !ff.everyIteration(s.In.Block(), lp) {
				continue
			}
			switch {
			case s.S == "local:complit.decode[i] := -1":
				// the loop ranges over the whole table, whatever its size
				if ia, ok := s.In.(*ssa.Store).Addr.(*ssa.IndexAddr); ok {
					if arr, ok := derefArray(ia.X.Type()); ok && (ff.loopSpace(lp) == fmt.Sprintf("i < %d", arr.Len()) || strings.HasPrefix(ff.loopSpace(lp), "i < len(")) {
						reset = true
					}
				}
			case s.S == "local:complit.decode[local:complit.encode[i]] := int8(i)":
				inv = true
			}
		}
		r.Check("C15-R1", na+": every decode slot is reset to -1", r.P.Pos(fn.Pos()), reset, "")
		r.Check("C15-R1", na+": decode[encode[i]] = i for every i (decode is the inverse of encode)", r.P.Pos(fn.Pos()), inv, "")
		r.RequireCallOrder("C15-R1", na, "the alphabet is copied into encode before the inverse is built", "copy", "copy")
		for _, e := range ff.Exits() {
			if e.Ret != nil {
				has := false
				for _, a := range ff.Must(e.Block) {
					if a.S == "len($0) == 58" {
						has = true
					}
				}
				r.Check("C15-R1", na+": returns only for a 58-character alphabet", r.P.Pos(e.Ret.Pos()), has, "")
			}
		}
	}
	// only NewAlphabet writes the tables
	nW := 0
	for _, f := range r.P.ModFns {
		for _, b := range f.Blocks {
			for _, in := range b.Instrs {
				st, ok := in.(*ssa.Store)
				if !ok {
					continue
				}
				ia, ok := st.Addr.(*ssa.IndexAddr)
				if !ok {
					continue
				}
				fa, ok := ia.X.(*ssa.FieldAddr)
				if !ok {
					continue
				}
				if stt := derefStruct(fa.X.Type()); stt != nil && typeShort(fa.X.Type()) == "cipher/base58.Alphabet" || stt != nil && strings.HasSuffix(typeShort(fa.X.Type()), "base58.Alphabet") {
					nW++
					r.Check("C15-R1", "Alphabet."+stt.Field(fa.Field).Name()+" is written only by NewAlphabet", r.P.Pos(st.Pos()), FnName(f) == na, "written in "+FnName(f))
				}
			}
		}
	}
	r.Check("C15-R1", "Alphabet table writers found", "", nW >= 2 || nW == 1, fmt.Sprint(nW))
	// the alphabet constant
	alpha := ""
	for _, f := range r.P.ModFns {
		if !strings.HasPrefix(FnName(f), "cipher/base58.init") {
			continue
		}
		for _, cs := range r.CallSites(f, na) {
			if c, ok := cs.Common().Args[0].(*ssa.Const); ok && c.Value != nil && c.Value.Kind() == constant.String {
				for _, rf := range *cs.Value().Referrers() {
					if st, ok := rf.(*ssa.Store); ok {
						if g, ok := st.Addr.(*ssa.Global); ok && g.Name() == "btcAlphabet" {
							alpha = constant.StringVal(c.Value)
						}
					}
				}
			}
		}
	}
	seen := map[byte]bool{}
	okA := len(alpha) == 58
	for i := 0; i < len(alpha); i++ {
		if alpha[i] > 127 || seen[alpha[i]] {
			okA = false
		}
		seen[alpha[i]] = true
	}
	r.Check("C15-R1", "btcAlphabet: 58 distinct 7-bit characters (decode table of 128 slots is indexable by each)", "", okA, alpha)
	r.Check("C15-R1", "btcAlphabet is the Bitcoin base58 alphabet (protocol constant)", "", alpha == "123456789ABCDEFGHJKLMNPQRSTUVWXYZabcdefghijkmnopqrstuvwxyz", alpha)
	// the zero digit: both sides use the character constant alphabet[0]
	zeroChar := func(ref string, isStore bool) (int64, bool) {
		fn := r.fn("C15-R1", ref)
		if fn == nil {
			return 0, false
		}
		for _, b := range fn.Blocks {
			for _, in := range b.Instrs {
				if isStore {
					if st, ok := in.(*ssa.Store); ok {
						if _, ok := st.Addr.(*ssa.IndexAddr); ok {
							if c, ok := constInt(st.Val); ok && isByte(st.Val.Type()) {
								return c.Int64(), true
							}
						}
					}
				} else if bo, ok := in.(*ssa.BinOp); ok && bo.Op == token.EQL {
					if c, ok := constInt(bo.Y); ok && isRune(bo.X.Type()) {
						return c.Int64(), true
					}
				}
			}
		}
		return 0, false
	}
	ze, ok1 := zeroChar(enc, true)
	zd, ok2 := zeroChar(dec, false)
	r.Check("C15-R1", "encoder writes and decoder counts the same leading-zero character, the alphabet's digit 0", "", ok1 && ok2 && ze == zd && okA && int64(alpha[0]) == ze, fmt.Sprintf("encoder %d decoder %d alphabet[0] %q", ze, zd, alpha[:1]))
	// R2 decoder
	r.RequireOnSuccess("C15-R2", dec,
		req("non-empty input", "len($0) != 0"),
		req("every rune is 7-bit", "forall(i < len([]rune($0))): []rune($0)[i] <= 127"),
		req("every rune maps to a digit", "forall(i < len([]rune($0))): $1.decode[[]rune($0)[i]] != -1"),
		req("no carry out of the accumulator", "forall(i < len([]rune($0))): fold[acc=uint64($1.decode[[]rune($0)[i]]); *] <= 0"))
	if fn := r.fn("C15-R2", dec); fn != nil {
		ff := r.P.Facts(fn)
		n := 0
		for _, s := range ff.BoundSites() {
			if !strings.HasPrefix(s.Expr, "$1.decode[") {
				continue
			}
			n++
			r.Check("C15-R2", dec+": table lookup "+trunc(s.Expr, 60)+" is in range", r.P.Pos(s.In.Pos()), s.OK, s.Why)
		}
		r.Check("C15-R2", dec+": decode-table lookups", "", n >= 2, "")
		for _, s := range ff.ArithSites() {
			if s.Kind == "convert" && strings.Contains(s.Expr, "[]rune($0)") && !strings.Contains(s.Expr, "len(") {
				if s.Expr == "uint64($1.decode[[]rune($0)[i]])" {
					// table entries are -1 or a digit 0..57 (R1: NewAlphabet is the only writer); -1 is excluded by the guard
					g := false
					for _, a := range ff.MustAt(s.In) {
						if a.S == "$1.decode[[]rune($0)[i]] != -1" {
							g = true
						}
					}
					r.Check("C15-R2", dec+": the digit converted to unsigned is a table entry already tested != -1", r.P.Pos(s.In.Pos()), g, "")
					continue
				}
				r.Check("C15-R2", dec+": conversion "+trunc(s.Expr, 80)+" does not lose input bits", r.P.Pos(s.In.Pos()), s.OK, s.Why)
			}
		}
		// no byte-wise narrowing of a rune anywhere in the decoder
		for _, b := range fn.Blocks {
			for _, in := range b.Instrs {
				if cv, ok := in.(*ssa.Convert); ok && isRune(cv.X.Type()) && isByte(cv.Type()) {
					r.Check("C15-R2", dec+": no rune is truncated to a byte", r.P.Pos(cv.Pos()), false, ff.Term(cv)+" maps distinct characters to one table slot")
				}
			}
		}
		r.Pass("C15-R2", dec+": rune truncation scan", "", "all conversions of the decoder inspected")
	}
	if fn := r.fn("C15-R2", enc); fn != nil {
		ff := r.P.Facts(fn)
		n := 0
		for _, s := range ff.BoundSites() {
			if strings.HasPrefix(s.Expr, "$1.encode[") {
				n++
				// digit = buf[j] where every store into buf is (x % 58)
				okMod := true
				for _, st := range ff.StoreFacts() {
					if strings.HasPrefix(st.S, "make([]uint32, ") && !strings.HasSuffix(st.S, " % 58)") {
						okMod = false
					}
				}
				r.Check("C15-R2", enc+": every digit looked up in the encode table was stored as a value mod 58", r.P.Pos(s.In.Pos()), okMod, "")
			}
		}
		r.Check("C15-R2", enc+": encode-table lookups", "", n == 1, "")
	}
	r.ReturnShape("C15-R2", "cipher/base58.Decode", 0, ShapeCase{"", "cipher/base58.fastBase58DecodingAlphabet($0, cipher/base58.btcAlphabet)#0"})
	r.ReturnShape("C15-R2", "cipher/base58.Encode", 0, ShapeCase{"", "cipher/base58.fastBase58EncodingAlphabet($0, cipher/base58.btcAlphabet)"})
	// R3 address
	r.RequireOnSuccess("C15-R3", "cipher.AddressFromBytes",
		req("exact length", "len($0) == 25"),
		req("checksum equals the recomputed checksum", "local:[4]byte == cipher.Address.Checksum(*)"),
		req("version 0", "*.Version == 0"))
	r.RequireOnSuccess("C15-R3", "cipher.DecodeBase58Address", req("base58 decoded", "ok(cipher/base58.Decode($0))"), req("bytes parsed", "ok(cipher.AddressFromBytes(cipher/base58.Decode($0)#0))"))
	r.ReturnShape("C15-R3", "cipher.Address.String", 0, ShapeCase{"", "cipher/base58.Encode(cipher.Address.Bytes($0))"})
	rd := addrLayout(r, "cipher.AddressFromBytes", true)
	wr := addrLayout(r, "cipher.Address.Bytes", false)
	keys := func(m map[string]string) string {
		var ks []string
		for k, v := range m {
			ks = append(ks, k+"="+v)
		}
		sort.Strings(ks)
		return strings.Join(ks, " ")
	}
	r.Check("C15-R3", "address reader and writer agree on the byte layout", "", len(rd) == 3 && keys(rd) == keys(wr), "reader "+keys(rd)+" / writer "+keys(wr))
	r.Check("C15-R3", "address layout is key[0:20] version[20] checksum[21:25]", "", keys(rd) == "checksum=21:25 key=0:20 version=20", keys(rd))
	if fn := r.fn("C15-R3", "cipher.Address.Bytes"); fn != nil {
		ok := false
		for _, b := range fn.Blocks {
			for _, in := range b.Instrs {
				if mk, ok2 := in.(*ssa.MakeSlice); ok2 {
					if c, ok3 := constInt(mk.Len); ok3 && c.Int64() == 25 {
						ok = true
					}
				}
				if al, ok2 := in.(*ssa.Alloc); ok2 {
					if arr, ok3 := al.Type().(*types.Pointer).Elem().Underlying().(*types.Array); ok3 && arr.Len() == 25 {
						ok = true
					}
				}
			}
		}
		r.Check("C15-R3", "cipher.Address.Bytes: the buffer has exactly the length the reader requires", r.P.Pos(fn.Pos()), ok, "")
	}
	if fn := r.fn("C15-R3", "cipher.Address.Checksum"); fn != nil {
		ff := r.P.Facts(fn)
		ok := false
		for _, cs := range r.CallSites(fn, "copy") {
			a := cs.Common().Args
			if glob("cipher.SumSHA256(append($0.Key[:], [$0.Version])[:])[:4]", ff.Term(a[1])) || glob("*cipher.SumSHA256(append($0.Key[:], [$0.Version])[:])*[:4]", ff.Term(a[1])) {
				ok = true
			}
		}
		r.Check("C15-R3", "cipher.Address.Checksum: first 4 bytes of SHA256(key || version)", r.P.Pos(fn.Pos()), ok, "")
	}
}

func isByte(t types.Type) bool {
	b, ok := t.Underlying().(*types.Basic)
	return ok && b.Kind() == types.Uint8
}

func isRune(t types.Type) bool {
	b, ok := t.Underlying().(*types.Basic)
	return ok && b.Kind() == types.Int32
}

// addrLayout extracts, from the copy calls and indexed stores/loads on the byte buffer
// of an address (de)serialiser, which buffer range carries which role.
func addrLayout(r *Run, ref string, reader bool) map[string]string {
	out := map[string]string{}
	fn := r.fn("C15-R3", ref)
	if fn == nil {
		return out
	}
	sliceRange := func(v ssa.Value) (base ssa.Value, rng string, ok bool) {
		sl, ok := v.(*ssa.Slice)
		if !ok {
			return nil, "", false
		}
		lo, hi := int64(0), int64(-1)
		if sl.Low != nil {
			c, ok := constInt(sl.Low)
			if !ok {
				return nil, "", false
			}
			lo = c.Int64()
		}
		if sl.High != nil {
			c, ok := constInt(sl.High)
			if !ok {
				return nil, "", false
			}
			hi = c.Int64()
		}
		return sl.X, fmt.Sprintf("%d:%d", lo, hi), true
	}
	isBuf := func(v ssa.Value) bool {
		// the []byte buffer: a []byte parameter (reader) or the made slice (writer), possibly re-sliced
		for {
			if sl, ok := v.(*ssa.Slice); ok {
				v = sl.X
				continue
			}
			break
		}
		if al, ok := v.(*ssa.Alloc); ok {
			// make([]byte, const) is an array allocation that is sliced
			if arr, ok := al.Type().(*types.Pointer).Elem().Underlying().(*types.Array); ok && isByte(arr.Elem()) && arr.Len() > 20 {
				return true
			}
			return false
		}
		st, ok := v.Type().Underlying().(*types.Slice)
		if !ok || !isByte(st.Elem()) {
			return false
		}
		switch v.(type) {
		case *ssa.Parameter, *ssa.MakeSlice:
			return true
		}
		return false
	}
	_ = isBuf
	role := func(v ssa.Value) string {
		t := v.Type()
		if p, ok := t.Underlying().(*types.Pointer); ok {
			t = p.Elem()
		}
		switch typeShort(t) {
		case "cipher.Ripemd160":
			return "key"
		case "cipher.Checksum":
			return "checksum"
		}
		if arr, ok := t.Underlying().(*types.Array); ok && arr.Len() == 4 {
			return "checksum"
		}
		if arr, ok := t.Underlying().(*types.Array); ok && arr.Len() == 20 {
			return "key"
		}
		return ""
	}
	for _, cs := range r.CallSites(fn, "copy") {
		a := cs.Common().Args
		bufArg, other := a[1], a[0]
		if !reader {
			bufArg, other = a[0], a[1]
		}
		b, rng, ok := sliceRange(bufArg)
		ob, _, ok2 := sliceRange(other)
		if !ok || !ok2 || !isBuf(b) {
			continue
		}
		if ro := role(ob); ro != "" {
			out[ro] = rng
		}
	}
	// version byte: b[k]
	for _, blk := range fn.Blocks {
		for _, in := range blk.Instrs {
			ia, ok := in.(*ssa.IndexAddr)
			if !ok || !isBuf(ia.X) {
				continue
			}
			c, ok := constInt(ia.Index)
			if !ok {
				continue
			}
			for _, rf := range *ia.Referrers() {
				switch x := rf.(type) {
				case *ssa.Store:
					if !reader && x.Addr == ia {
						out["version"] = fmt.Sprint(c.Int64())
					}
				case *ssa.UnOp:
					if reader {
						out["version"] = fmt.Sprint(c.Int64())
					}
				}
			}
		}
	}
	return out
}
