package main

import (
	"fmt"
	"strings"

	"golang.org/x/tools/go/ssa"
)

func init() { props["C10"] = checkC10 }

func checkC10(r *Run) {
	r.Explain = "C10: (R1) the two signature acceptors return 1 only for 65-byte signatures with low s (top bit of byte 32 clear) and recovery id < 4, with the recovered key equal to the given key; (R2) every acceptance entry of package cipher passes through them, and Sign normalises high s (s = n - s, recid ^= 1) on every path; (R4) Signature.ParseBytes sets r and s from the 32+32 signature bytes and does nothing else to them (parsing is injective), RecoverPublicKey accepts only with 0<r<n, 0<s<n tested on exactly those values; (R3) every encoded field of a transaction is constrained on acceptance, the signed message of input i is AddSHA256(InnerHash, In[i]) in all three sibling implementations, block signatures cover the header hash, and decoding is exact (no trailing bytes)."
	r.NotDec = "that no other byte string verifies (needs curve mathematics, C14)"
	ruleNullPredicates(r, "C10-R3", "cipher.Sig.Null", "cipher.SHA256.Null")
	lowS := []string{"($1[32] >> 7) != 1", "($1[32] >> 7) == 0", "$1[32] < 128", "($1[32] & 128) == 0", "$1[32] <= 127"}
	r.RequireOnSuccess("C10-R1", "cipher/secp256k1-go.VerifySignature",
		req("low s only (top bit of s clear)", lowS...),
		req("recovery id below 4", "$1[64] < 4", "$1[64] <= 3"),
		req("public key recoverable", "cipher/secp256k1-go.RecoverPubkey($0, $1) != nil"),
		req("recovered key equals the given key", "bytes.Equal($2, cipher/secp256k1-go.RecoverPubkey($0, $1))", "bytes.Equal(cipher/secp256k1-go.RecoverPubkey($0, $1), $2)"))
	lowS0 := []string{"($0[32] >> 7) != 1", "($0[32] >> 7) == 0", "$0[32] < 128", "($0[32] & 128) == 0", "$0[32] <= 127"}
	r.RequireOnSuccess("C10-R1", "cipher/secp256k1-go.VerifySignatureValidity",
		req("65 bytes", "len($0) == 65"),
		req("low s only", lowS0...),
		req("recovery id below 4", "$0[64] < 4", "$0[64] <= 3"))
	// RecoverPubkey itself refuses recid >= 4 / wrong length (so that Recover-only paths are covered too)
	r.RequireOnSuccess("C10-R2", "cipher.VerifyPubKeySignedHash",
		req("recovered key equals the given key", "cipher.PubKeyFromSig($1, $2)#0 == $0"),
		req("signature well-formed (low s, recid)", "cipher/secp256k1-go.VerifySignatureValidity($1[:]) == 1"),
		req("signature verifies", "cipher/secp256k1-go.VerifySignature*($2[:], $1[:], $0[:]) == 1"))
	r.RequireOnSuccess("C10-R2", "cipher.VerifyAddressSignedHash",
		req("address of the recovered key equals the given address", "$0 == cipher.AddressFromPubKey(cipher.NewPubKey(cipher/secp256k1-go.RecoverPubkey($2[:], $1[:]))#0)"),
		req("signature verifies (low s, recid)", "cipher/secp256k1-go.VerifySignature($2[:], $1[:], cipher/secp256k1-go.RecoverPubkey($2[:], $1[:])[:]) == 1"))
	r.RequireOnSuccess("C10-R2", "cipher.VerifySignatureRecoverPubKey",
		req("signature verifies (low s, recid)", "cipher/secp256k1-go.VerifySignature($1[:], $0[:], cipher/secp256k1-go.RecoverPubkey($1[:], $0[:])) == 1"))
	// Sign normalisation
	r.RequireBranchOnEverySuccessPath("C10-R2", "cipher/secp256k1-go/secp256k1-go2.Signature.Sign", "s is compared with n/2 on every signing path", "big.Int.Cmp($0.S.Int, cipher/secp256k1-go/secp256k1-go2.TheCurve.halfOrder.Int) * 1")
	r.RequireAtCall("C10-R2", "cipher/secp256k1-go/secp256k1-go2.Signature.Sign", "big.Int.Sub", 1,
		req("s replaced by n - s exactly when s > n/2", "big.Int.Cmp($0.S.Int, cipher/secp256k1-go/secp256k1-go2.TheCurve.halfOrder.Int) == 1"))
	if fn := r.P.Fn("cipher/secp256k1-go/secp256k1-go2.Signature.Sign"); fn != nil {
		for _, cs := range r.CallSites(fn, "big.Int.Sub") {
			ok := r.argTerm(cs, 0) == "$0.S.Int" && r.argTerm(cs, 1) == "cipher/secp256k1-go/secp256k1-go2.TheCurve.Order.Int" && r.argTerm(cs, 2) == "$0.S.Int"
			r.Check("C10-R2", "Sign: the replacement is S = Order - S", r.P.Pos(cs.Pos()), ok, r.argTerm(cs, 0)+" = "+r.argTerm(cs, 1)+" - "+r.argTerm(cs, 2))
		}
	}
	// R3 field coverage + sibling agreement on the signed message
	r.RequireOnSuccess("C10-R3", "coin.Transaction.verify", txnVerifyReqs()...)
	r.RequireOnSuccess("C10-R3", "coin.Transaction.VerifyInputSignatures",
		req("prelude (lengths, inner hash, input ids)", "ok(coin.Transaction.verifyInputSignaturesPrelude($0, $1))"),
		req("no null signature", "forall(i < len($0.In)): !cipher.Sig.Null($0.Sigs[i])"),
		req("every signature is by the owner of the spent output over AddSHA256(InnerHash, In[i])", "forall(i < len($0.In)): ok(cipher.VerifyAddressSignedHash($1[i].Body.Address, $0.Sigs[i], cipher.AddSHA256($0.InnerHash, $0.In[i])))"))
	r.RequireOnSuccess("C10-R3", "coin.Transaction.verifyInputSignaturesPrelude",
		req("one spent output per input", "len($0.In) == len($1)"),
		req("one signature per input", "len($0.In) == len($0.Sigs)"),
		req("inner hash binds inputs and outputs", "$0.InnerHash == coin.Transaction.HashInner($0)"),
		req("each input id is the hash of the spent output", "forall(i < len($0.In)): $0.In[i] == coin.UxOut.Hash($1[i])"))
	r.RequireStore("C10-R3", "coin.Transaction.SignInput", "SignInput signs AddSHA256(InnerHash, In[index]) into Sigs[index]", "$0.Sigs[$2] := cipher.MustSignHash(cipher.AddSHA256($0.InnerHash, $0.In[$2]), $1)")
	r.RequireOnSuccess("C10-R3", "coin.SignedBlock.VerifySignature",
		req("block signature is over the header hash", "ok(cipher.VerifyPubKeySignedHash($1, $0.Sig, coin.Block.HashHeader($0.Block)))"))
	r.ReturnShape("C10-R3", "coin.Block.HashHeader", 0, ShapeCase{"", "coin.BlockHeader.Hash($0.Head)"})
	r.RequireOnSuccess("C10-R3", "coin.decodeTransactionExact",
		req("no trailing bytes", "coin.decodeTransaction($0, $1)#0 == uint64(len($0))"))
	r.RequireOnSuccess("C10-R3", "daemon.decodeGiveBlocksMessageExact",
		req("no trailing bytes", "daemon.decodeGiveBlocksMessage($0, $1)#0 == uint64(len($0))"))
	// R4: the (r, s) read from the wire are the signature's bytes themselves (parsing is injective) and the
	// canonical-range test of r and s is live on the acceptance path
	const pb = "cipher/secp256k1-go/secp256k1-go2.Signature.ParseBytes"
	if fn := r.fn("C10-R4", pb); fn != nil {
		ff := r.P.Facts(fn)
		seen := map[string]bool{}
		for _, b := range fn.Blocks {
			for _, in := range b.Instrs {
				ci, ok := in.(ssa.CallInstruction)
				if !ok || len(ci.Common().Args) == 0 {
					continue
				}
				recv := ff.Term(ci.Common().Args[0])
				if recv != "$0.R" && recv != "$0.S" && recv != "$0.R.Int" && recv != "$0.S.Int" {
					continue
				}
				key := calleeName(ci.Common()) + "(" + recv
				if len(ci.Common().Args) > 1 {
					key += ", " + ff.Term(ci.Common().Args[1])
				}
				key += ")"
				okk := key == "big.Int.SetBytes($0.R.Int, $1[0:32])" || key == "big.Int.SetBytes($0.S.Int, $1[32:64])" || key == "big.Int.SetBytes($0.R.Int, $1[:32])"
				seen[key] = true
				r.Check("C10-R4", pb+": "+key+" only sets r/s from the signature's own bytes", r.P.Pos(ci.Pos()), okk, "any further transformation (reduction, normalisation) makes several byte strings parse to one signature")
			}
		}
		for _, st := range ff.StoreFacts() {
			if strings.HasPrefix(st.S, "$0.R") || strings.HasPrefix(st.S, "$0.S") {
				r.Check("C10-R4", pb+": no direct store into r/s", r.P.Pos(st.In.Pos()), false, st.S)
			}
		}
		r.Check("C10-R4", pb+": r and s are each set exactly once from their 32 bytes", r.P.Pos(fn.Pos()), len(seen) == 2 && seen["big.Int.SetBytes($0.S.Int, $1[32:64])"], fmt.Sprint(len(seen)))
	}
	ruleRecoverRange(r, "C10-R4")
	// a block signature covers the header only: the chain from the signature to the body it speaks for
	ruleBlockSigChain(r, "C10-R6")
	// trailing bytes: the raw-transaction entry decodes the whole buffer or fails
	r.RequireOnSuccess("C10-R5", "coin.DeserializeTransaction", req("decodes with the exact (whole buffer) generated decoder", "ok(coin.decodeTransactionExact($0, *))"))
	r.RequireOnSuccess("C10-R5", "coin.decodeTransactionExact",
		req("decoder succeeded", "ok(coin.decodeTransaction(*"),
		req("whole buffer consumed", "uint64(len($0)) == coin.decodeTransaction(*)#0", "coin.decodeTransaction(*)#0 == uint64(len($0))"))
	ruleExactDecoders(r, "C10-R5", "coin.")
}

// ruleRecoverRange (shared by C09 and C10): RecoverPublicKey accepts only 64 signature bytes with
// 0 < r < n and 0 < s < n, tested directly on the parsed values.
func ruleRecoverRange(r *Run, R4 string) {
	const pb = "cipher/secp256k1-go/secp256k1-go2.Signature.ParseBytes"
	const rp = "cipher/secp256k1-go/secp256k1-go2.RecoverPublicKey"
	if fn := r.fn(R4, rp); fn != nil {
		ff := r.P.Facts(fn)
		n := 0
		for _, e := range ff.Exits() {
			if e.Ret == nil || len(e.Ret.Results) != 2 {
				continue
			}
			if c, ok := constInt(e.Ret.Results[1]); !ok || c.Int64() != 1 {
				continue
			}
			n++
			has := func(p string) bool {
				for _, a := range ff.Must(e.Block) {
					if glob(p, a.S) {
						return true
					}
				}
				return false
			}
			const O = "cipher/secp256k1-go/secp256k1-go2.TheCurve.Order.Int"
			r.Check(R4, rp+": accepted only with 0 < r < n", r.P.Pos(e.Ret.Pos()), has("0 < big.Int.Sign(local:cipher/secp256k1-go/secp256k1-go2.Signature.R.Int)") && has("big.Int.Cmp(local:cipher/secp256k1-go/secp256k1-go2.Signature.R.Int, "+O+") < 0"), "")
			r.Check(R4, rp+": accepted only with 0 < s < n", r.P.Pos(e.Ret.Pos()), has("0 < big.Int.Sign(local:cipher/secp256k1-go/secp256k1-go2.Signature.S.Int)") && has("big.Int.Cmp(local:cipher/secp256k1-go/secp256k1-go2.Signature.S.Int, "+O+") < 0"), "")
			r.Check(R4, rp+": accepted only with 64 signature bytes and a successful recovery", r.P.Pos(e.Ret.Pos()), has("len($0) == 64") && has("cipher/secp256k1-go/secp256k1-go2.Signature.Recover(local:cipher/secp256k1-go/secp256k1-go2.Signature, *)"), "")
		}
		r.Check(R4, rp+": acceptance exits", "", n == 1, "")
		// nothing touches sig between parsing and the range tests
		r.RequireCallOrder(R4, rp, "the range tests follow the parse directly", pb, "big.Int.Sign")
		for _, b := range fn.Blocks {
			for _, in := range b.Instrs {
				ci, ok := in.(ssa.CallInstruction)
				if !ok || len(ci.Common().Args) == 0 {
					continue
				}
				recv := ff.Term(ci.Common().Args[0])
				nm := calleeName(ci.Common())
				if (strings.HasPrefix(recv, "local:cipher/secp256k1-go/secp256k1-go2.Signature.R") || strings.HasPrefix(recv, "local:cipher/secp256k1-go/secp256k1-go2.Signature.S")) && nm != "big.Int.Sign" && nm != "big.Int.Cmp" {
					r.Check(R4, rp+": r/s are only compared, never rewritten, before recovery", r.P.Pos(ci.Pos()), false, nm+"("+recv+", …)")
				}
			}
		}
	}
}
