package main

import (
	"fmt"
	"go/types"
	"strings"

	"golang.org/x/tools/go/ssa"
)

func init() { props["C29"] = checkC29 }

func checkC29(r *Run) {
	r.Explain = "(R3) no function of the query path (visor, historydb) returns a slice built while ranging over a map without sorting it (stable order between page requests); C29: (R1) every arithmetic step of PageIndex.Cal is wrap-free for every page number (interval arithmetic with the constructor invariant size in [0,100], the quotient-bound idiom for size*(page-1), and n bounded by a slice length at its call sites); (R2) Cal returns (0,0,pages) exactly for pages beyond the last, else start=size*(page-1), end=min(start+size, n), pages=ceil(n/size); NewPageIndex enforces 1<=size<=100, page>=1; Pagination slices exactly items[start:end] and takes the everything shortcut only for a nil page."
	r.NotDec = "order and de-duplication of the underlying list (established where the list is built)"
	// R3: the list that is paged has a stable order between requests: no function of the query path returns a
	// slice assembled while ranging over a map without sorting it
	nMap, leaks, poss := mapOrderLeaks(r.P, "visor/historydb.", "visor.")
	for i, l := range leaks {
		r.Check("C29-R3", l, r.P.Pos(poss[i].Pos()), false, "map iteration order differs from call to call: consecutive page requests slice different lists")
	}
	r.Check("C29-R3", "query-path functions that range over a map return sorted (or map-free) lists", "", nMap >= 5, fmt.Sprintf("%d functions with a map range inspected", nMap))
	r.Check("C29-R1", "field invariant visor.PageIndex.size registered", "", r.P.RegisterFieldInvariant("visor.PageIndex.size"), "anchor")
	r.Check("C29-R1", "parameter n of Cal bounded by its call sites", "", r.P.RegisterParamFromCallers("visor.PageIndex.Cal"), "anchor")
	arithObligations(r, "C29-R1", "visor.PageIndex.Cal")
	r.Min("C29-R1", 6)
	boundObligations(r, "C29-R1b", "visor.txnHashesContainer.Pagination")

	pages := "φ(($1 / $0.size)|(($1 / $0.size) + 1))"
	r.RequireOnSuccess("C29-R2", "visor.PageIndex.Cal", req("page size non-zero", "$0.size != 0"), req("page number non-zero", "$0.n != 0"))
	r.ReturnShape("C29-R2", "visor.PageIndex.Cal", 2, // totalPages
		ShapeCase{"$0.size == 0", "0"}, ShapeCase{"$0.n == 0", "0"}, ShapeCase{"", pages})
	r.ReturnShape("C29-R2", "visor.PageIndex.Cal", 0, // start
		ShapeCase{pages + " < $0.n", "0"}, ShapeCase{"$0.size == 0", "0"}, ShapeCase{"$0.n == 0", "0"},
		ShapeCase{"$0.n <= " + pages, "($0.size * ($0.n - 1))"})
	r.ReturnShape("C29-R2", "visor.PageIndex.Cal", 1, // end
		ShapeCase{pages + " < $0.n", "0"}, ShapeCase{"$0.size == 0", "0"}, ShapeCase{"$0.n == 0", "0"},
		ShapeCase{"$1 < (($0.size * ($0.n - 1)) + $0.size)", "$1"},
		ShapeCase{"(($0.size * ($0.n - 1)) + $0.size) <= $1", "(($0.size * ($0.n - 1)) + $0.size)"})
	// the two alternatives of the page count are guarded by the remainder test
	r.RequireOnSuccess("C29-R2", "visor.NewPageIndex", req("size >= 1", "$0 != 0"), req("page >= 1", "$1 != 0"), req("size <= max", "$0 <= 100", "$0 <= visor.MaxTxnPageSize"))
	r.RequireStore("C29-R2", "visor.NewPageIndex", "size stored", "*.size := $0")
	r.RequireStore("C29-R2", "visor.NewPageIndex", "page number stored", "*.n := $1")
	cal := "visor.PageIndex.Cal($1, visor.txnHashesContainer.Len($0))"
	r.RequireReturnAllPaths("C29-R2", "visor.txnHashesContainer.Pagination", 1, "1", 1, req("no page index was given", "$1 == nil"))
	fn := r.fn("C29-R2", "visor.txnHashesContainer.Pagination")
	if fn != nil {
		ff := r.P.Facts(fn)
		_, facts := ff.SuccessFacts()
		found := false
		for _, fs := range facts {
			if _, m := matchAny([]string{"len($0.items[" + cal + "#0:" + cal + "#1]) <= i"}, fs); m {
				found = true
			}
		}
		r.Check("C29-R2", "Pagination iterates exactly items[start:end] of Cal(len(items))", r.P.Pos(fn.Pos()), found, "")
		for _, ex := range ff.Exits() {
			if ex.Kind == ExitSuccess && len(ex.Ret.Results) == 3 {
				t := ff.Term(ex.Ret.Results[1])
				if t != "1" {
					r.Check("C29-R2", "Pagination reports Cal's page count", r.P.Pos(ex.Pos), t == cal+"#2", "returns "+t)
				}
			}
		}
	}
	r.ReturnShape("C29-R2", "visor.txnHashesContainer.Len", 0, ShapeCase{"", "uint64(len($0.items))"})
	// R5 sibling agreement: every getter that pages a hash list sorts the whole list first and pages afterwards
	// (pages are slices of one ordered list, not separately sorted slices of an unordered one)
	nPg := 0
	for _, fn := range r.P.ModFns {
		if !strings.HasPrefix(FnName(fn), "visor.") || len(r.CallSites(fn, "visor.txnHashesContainer.Pagination")) == 0 {
			continue
		}
		nPg++
		r.RequireCallOrder("C29-R5", FnName(fn), "the full list is sorted before it is cut into pages", "visor.txnHashesContainer.Sort", "visor.txnHashesContainer.Pagination")
		for _, cs := range r.CallSites(fn, "visor.txnHashesContainer.Pagination") {
			for _, ss := range r.CallSites(fn, "visor.txnHashesContainer.Sort") {
				same := r.argTerm(ss, 0) == r.argTerm(cs, 0)
				r.Check("C29-R5", FnName(fn)+": the container that is paged is the one that was sorted", r.P.Pos(cs.Pos()), same, r.argTerm(ss, 0)+" vs "+r.argTerm(cs, 0))
				after := cs.Block() != ss.Block() && cs.Block().Dominates(ss.Block())
				r.Check("C29-R5", FnName(fn)+": no sort after paging", r.P.Pos(ss.Pos()), !after, "the page is sorted on its own")
			}
		}
	}
	r.Check("C29-R5", "getters that page a hash list", "", nPg >= 3, fmt.Sprint(nPg))
	// R4 the list the pages are cut from holds every hash once: each append to items happens only when the hash
	// is not yet in the membership map, and records it there
	nApp := 0
	for _, fn := range r.P.ModFns {
		if !strings.HasPrefix(FnName(fn), "visor.") {
			continue
		}
		ff := r.P.Facts(fn)
		for _, b := range fn.Blocks {
			for _, in := range b.Instrs {
				st, ok := in.(*ssa.Store)
				if !ok {
					continue
				}
				fa, ok := st.Addr.(*ssa.FieldAddr)
				if !ok {
					continue
				}
				sty := derefStruct(fa.X.Type())
				nt, isNamed := derefType(fa.X.Type()).(*types.Named)
				if sty == nil || !isNamed || nt.Obj().Name() != "txnHashesContainer" || sty.Field(fa.Field).Name() != "items" {
					continue
				}
				if _, isApp := st.Val.(*ssa.Call); !isApp {
					continue // not an append (constructor literal)
				}
				nApp++
				var fs []string
				for _, a := range ff.MustAt(in) {
					fs = append(fs, a.S)
				}
				at, m := matchAny([]string{"!lookup(" + ff.Term(fa.X) + ".m[*])#1"}, fs)
				r.Check("C29-R4", FnName(fn)+": an item is appended only when its hash is not yet in the container", r.P.Pos(in.Pos()), m, "append to items reachable with the hash already present: the result list would hold a transaction twice")
				// the same key is recorded in the map
				rec := false
				if m {
					key := at[strings.Index(at, ".m[")+3 : strings.LastIndex(at, "])#1")]
					for _, b2 := range fn.Blocks {
						for _, in2 := range b2.Instrs {
							if mu, ok := in2.(*ssa.MapUpdate); ok && ff.Term(mu.Key) == key && strings.HasSuffix(ff.Term(mu.Map), ".m") {
								rec = true
							}
						}
					}
					val := ff.Term(st.Val)
					r.Check("C29-R4", FnName(fn)+": the membership test is on the appended item's own hash", r.P.Pos(in.Pos()), strings.Contains(val, "hash: "+key) || strings.Contains(val, "["+strings.TrimSuffix(key, ".hash")+"]"), "tests "+key+", appends "+trunc(val, 160))
				}
				r.Check("C29-R4", FnName(fn)+": the appended hash is recorded in the membership map", r.P.Pos(in.Pos()), rec, "")
			}
		}
	}
	r.Check("C29-R4", "append sites of txnHashesContainer.items", "", nApp >= 1, fmt.Sprint(nApp))
}

func derefType(t types.Type) types.Type {
	if p, ok := t.Underlying().(*types.Pointer); ok {
		return p.Elem()
	}
	return t
}
