package main

import (
	"fmt"
	"strings"

	"golang.org/x/tools/go/ssa"
)

func init() {
	props["C17"] = checkC17
	props["C18"] = checkC18
}

func checkC17(r *Run) {
	r.Explain = "C17 (three structural clauses): (R1) no entropy or clock source is reachable (VTA) from the address-derivation entry points of the four wallet types: derivation depends on wallet state only; (R2) entry consistency at every place an entry is built: the address is computed from the same public key value that is stored, the public key is derived from the stored secret key (deterministic/collection) or from the chain public key at the entry's child number (bip44/xpub), and the bip44 secret is derived at (chain index, child number) — the same coordinates as the public key — at every call site of the derivation helper (sibling agreement); (R3) the deterministic wallet chains its seed: the first batch starts from the wallet seed, later batches from the stored last seed, and the new last seed is stored before the entries are appended."
	r.NotDec = "batch-split and reload invariance as value properties across call sequences; correctness of the key derivation primitives (C14/C16)"
	ruleRecoverWalletOptions(r, "C17-R5")
	// R1
	entries := []string{
		"wallet/deterministic.Wallet.GenerateAddresses", "wallet/deterministic.Wallet.ScanAddresses",
		"wallet/bip44wallet.Wallet.GenerateAddresses", "wallet/bip44wallet.Wallet.ScanAddresses", "wallet/bip44wallet.Wallet.PeekChangeAddress", "wallet/bip44wallet.bip44Chain.newAddresses",
		"wallet/xpubwallet.Wallet.GenerateAddresses", "wallet/xpubwallet.Wallet.ScanAddresses",
		"wallet/collection.Wallet.GenerateAddresses",
	}
	var roots []*ssa.Function
	for _, e := range entries {
		if fn := r.fn("C17-R1", e); fn != nil {
			roots = append(roots, fn)
		}
	}
	// pruned with reasons: (1) cipher.CheckSecKey is a debug self-test whose only effect is a panic (it signs a
	// time-derived message with the key under test and verifies it; nothing flows back to the caller);
	// (2) the TransactionsFinder passed to ScanAddresses reads the blockchain (address activity is an input of
	// the scan by definition), so package visor is outside the derivation proper.
	stop := func(f *ssa.Function) bool {
		n := FnName(f)
		return !InModule(f) || n == "cipher.CheckSecKey" || strings.HasPrefix(n, "visor.") || strings.HasPrefix(n, "visor/")
	}
	if fn := r.fn("C17-R1", "cipher.CheckSecKey"); fn != nil {
		// the exception is sound only while CheckSecKey returns nothing but an error
		sig := fn.Signature
		r.Check("C17-R1", "cipher.CheckSecKey (pruned self-test) returns only an error", r.P.Pos(fn.Pos()), sig.Results().Len() == 1 && isErrorType(sig.Results().At(0).Type()), "")
	}
	reach := reachableFrom(r.P.VTA(), roots, stop)
	r.Units["module functions reachable from derivation entries"] = len(reach)
	sources := map[string]bool{"rand.Read": true, "rand.Int": true, "rand.Intn": true, "rand.Int63": true, "rand.Uint32": true, "rand.Uint64": true, "rand.Seed": true, "time.Now": true, "cipher.RandByte": true, "cipher/secp256k1-go.RandByte": true, "rand.Rand.Read": true, "rand.Rand.Intn": true}
	bad := 0
	for f := range reach {
		if f.Blocks == nil || !InModule(f) {
			continue
		}
		// logging helpers use the clock for timestamps only
		if strings.HasPrefix(FnName(f), "util/logging.") {
			continue
		}
		for _, b := range f.Blocks {
			for _, in := range b.Instrs {
				if ci, ok := in.(ssa.CallInstruction); ok && sources[calleeName(ci.Common())] {
					bad++
					r.Check("C17-R1", FnName(f)+" reads "+calleeName(ci.Common())+" on a derivation path", r.P.Pos(ci.Pos()), false, "derived addresses would depend on randomness/time: "+pathTo(reach, f))
				}
			}
		}
	}
	r.Check("C17-R1", "no entropy or clock source reachable from the derivation entry points", "", bad == 0 && len(reach) > 50, "")
	// positive control: the detector sees RandByte where it is used
	if fn := r.P.Fn("cipher.GenerateKeyPair"); fn != nil {
		rr := reachableFrom(r.P.VTA(), []*ssa.Function{fn}, func(f *ssa.Function) bool { return !InModule(f) })
		found := false
		for f := range rr {
			if f.Blocks == nil {
				continue
			}
			for _, b := range f.Blocks {
				for _, in := range b.Instrs {
					if ci, ok := in.(ssa.CallInstruction); ok && sources[calleeName(ci.Common())] {
						found = true
					}
				}
			}
		}
		r.Check("C17-R1", "positive control: entropy is found under cipher.GenerateKeyPair", "", found, "")
	}
	// R2 deterministic
	const dg = "wallet/deterministic.Wallet.GenerateAddresses"
	first := `cipher.MustGenerateDeterministicKeyPairsSeed([]byte(wallet.Meta.Seed($0.Meta)), int(wallet.GetGenerateNFromOptions($1)))`
	later := `cipher.MustGenerateDeterministicKeyPairsSeed(hex.DecodeString(wallet.Meta.LastSeed($0.Meta))#0, int(wallet.GetGenerateNFromOptions($1)))`
	if fn := r.fn("C17-R2", dg); fn != nil {
		fs := r.fieldStores(fn)
		sk := fs["Secret"]
		r.Check("C17-R2", dg+": entry secret = i-th secret key returned by the deterministic generator", r.P.Pos(fn.Pos()),
			sk == "φ("+first+"#1|"+later+"#1)[i]" || sk == "φ("+later+"#1|"+first+"#1)[i]", trunc(sk, 300))
		r.Check("C17-R2", dg+": entry public key derived from that same secret", r.P.Pos(fn.Pos()), sk != "" && fs["Public"] == "cipher.MustPubKeyFromSecKey("+sk+")", trunc(fs["Public"], 300))
		r.Check("C17-R2", dg+": entry address built from that same public key by the wallet's address constructor", r.P.Pos(fn.Pos()), fs["Public"] != "" && fs["Address"] == "dyn:wallet.AddressConstructor($0.Meta)("+fs["Public"]+")", trunc(fs["Address"], 300))
		// R3
		ff := r.P.Facts(fn)
		var t string
		for _, b := range fn.Blocks {
			for _, in := range b.Instrs {
				if c, ok := in.(*ssa.Call); ok && calleeName(&c.Call) == "wallet.Meta.SetLastSeed" {
					t = ff.Term(c.Call.Args[1])
				}
			}
		}
		ok := t == "hex.EncodeToString(φ("+first+"#0|"+later+"#0))" || t == "hex.EncodeToString(φ("+later+"#0|"+first+"#0))"
		r.Check("C17-R3", dg+": last seed := hex(seed returned by the generator), started from Seed() for the first batch and from LastSeed() afterwards", r.P.Pos(fn.Pos()), ok, trunc(t, 300))
		r.RequirePhiEdgeAllPaths("C17-R3", fn, first+"#0", req("no entries yet", "len($0.entries) == 0"))
		r.RequirePhiEdgeAllPaths("C17-R3", fn, later+"#0", req("last seed decoded", "ok(hex.DecodeString(wallet.Meta.LastSeed($0.Meta)))"))
		r.RequireCallOrder("C17-R3", dg, "the last seed is stored before entries are appended", "wallet.Meta.SetLastSeed", "cipher.MustPubKeyFromSecKey")
	}
	// bip44
	const na = "wallet/bip44wallet.bip44Chain.newAddresses"
	idx := "(uint32(len($0.Entries)) + i)"
	cpk := "cipher.NewPubKey(cipher/bip32.PublicKey.NewPublicChildKey($0.PubKey, " + idx + ")#0.key.Key)#0"
	if fn := r.fn("C17-R2", na); fn != nil {
		fs := r.fieldStores(fn)
		r.Check("C17-R2", na+": entry child number = next index on the chain", r.P.Pos(fn.Pos()), fs["ChildNumber"] == idx, fs["ChildNumber"])
		r.Check("C17-R2", na+": entry public key = chain public key derived at that child number", r.P.Pos(fn.Pos()), fs["Public"] == cpk, fs["Public"])
		r.Check("C17-R2", na+": entry address built from that same public key", r.P.Pos(fn.Pos()), fs["Address"] == "dyn:$3("+cpk+")", fs["Address"])
		r.Check("C17-R2", na+": entry secret derived at (chain index, child number)", r.P.Pos(fn.Pos()), fs["Secret"] == "wallet/bip44wallet.secretFromPrivateKey($2, $0.ChainIndex, "+idx+")#0", fs["Secret"])
	}
	acct := "cipher/bip32.PrivateKey.NewPrivateChildKey($0, $1)"
	r.ReturnShape("C17-R2", "wallet/bip44wallet.secretFromPrivateKey", 0,
		ShapeCase{"ok(cipher/bip32.PrivateKey.NewPrivateChildKey(" + acct + "#0, $2))", "cipher.NewSecKey(cipher/bip32.PrivateKey.NewPrivateChildKey(" + acct + "#0, $2)#0.key.Key)#0"},
		ShapeCase{"", "zero"})
	ruleBip44SecretCoordinates(r, "C17-R2")
	ruleEntryVerify(r, "C17-R2")
	// xpub entries
	const xg = "wallet/xpubwallet.Wallet.generateEntries"
	if fn := r.fn("C17-R2", xg); fn != nil {
		fs := r.fieldStores(fn)
		pub, addr, cn := fs["Public"], fs["Address"], fs["ChildNumber"]
		r.Check("C17-R2", xg+": entry address is built from the stored public key", r.P.Pos(fn.Pos()), pub != "" && strings.HasPrefix(addr, "wallet.AddressFromPubKey$bound(cipher.MustNewPubKey(") && callHasArg(fieldStoreValues(fn)["Address"], fieldStoreValues(fn)["Public"]), trunc(addr, 200))
		// the key list and the index list are appended pairwise in one block, with key = child(xpub, J) and index = (J+1)-1
		var keyJ, idxT string
		var kb, ib *ssa.BasicBlock
		for _, s := range r.P.Facts(fn).StoreFacts() {
			if m := globCapture("local:varargs[0] := cipher/bip32.PublicKey.NewPublicChildKey($0.xpub, *)#0", s.S); m != nil {
				keyJ, kb = m[0], s.In.Block()
			}
			if m := globCapture("local:varargs[0] := (util/mathutil.AddUint32(*, 1)#0 - 1)", s.S); m != nil {
				idxT, ib = m[0], s.In.Block()
			}
		}
		r.Check("C17-R2", xg+": keys and child numbers are appended pairwise, key = xpub child at J and number = (J+1)-1 for the same J", r.P.Pos(fn.Pos()), keyJ != "" && keyJ == idxT && kb == ib, "key index "+keyJ+" / number base "+idxT)
		r.Check("C17-R2", xg+": entry i takes key i and child number i of those lists", r.P.Pos(fn.Pos()), strings.HasPrefix(pub, "cipher.MustNewPubKey(fold[") && strings.HasSuffix(pub, "][i].key.Key)") && strings.HasPrefix(cn, "fold[") && strings.HasSuffix(cn, "][i]"), trunc(pub, 120)+" / "+trunc(cn, 120))
	}
}

// ruleBip44SecretCoordinates: sibling agreement over all call sites of the bip44 secret
// derivation helper: the secret of an entry is derived at (its chain's index, its own
// child number) — the coordinates its public key was derived at.  Used by C17 (entry
// consistency) and C18 (secrets synthesised at Unlock belong to their entries).
func ruleBip44SecretCoordinates(r *Run, rule string) {
	idx := "(uint32(len($0.Entries)) + i)"
	// ChainIndex, the coordinate every derivation reads, is what the chain was created with and what a reload
	// restores: the constructor stores its index argument, the file decoder the index parsed from the chain's name
	if fn := r.fn(rule, "wallet/bip44wallet.readableBip44Chain.toBip44Chain"); fn != nil {
		fs := r.fieldStores(fn)
		r.Check(rule, "toBip44Chain: a chain loaded from a wallet file gets the ChainIndex parsed from its chain name", r.P.Pos(fn.Pos()),
			fs["ChainIndex"] == "uint32(wallet/bip44wallet.stringToChainIndex($0.Chain)#0)", "ChainIndex := "+fs["ChainIndex"])
		r.RequireOnSuccess(rule, "wallet/bip44wallet.readableBip44Chain.toBip44Chain", req("the chain name parses", "ok(wallet/bip44wallet.stringToChainIndex($0.Chain))"))
	}
	// sibling agreement over all call sites of secretFromPrivateKey
	n := 0
	for _, fn := range r.P.ModFns {
		ff := r.P.Facts(fn)
		for _, cs := range r.CallSites(fn, "wallet/bip44wallet.secretFromPrivateKey") {
			n++
			chain, child := ff.Term(cs.Common().Args[1]), ff.Term(cs.Common().Args[2])
			okChain := chain == "$0.ChainIndex"
			okChild := child == idx || child == "uint32(i)"
			r.Check(rule, FnName(fn)+": secret derived at (chain.ChainIndex, entry index) like the public key", r.P.Pos(cs.Pos()), okChain && okChild, "secretFromPrivateKey(_, "+chain+", "+child+")")
			if child == "uint32(i)" {
				// the loop must range over the chain's own entries (position == child number)
				lp := ff.innermost[cs.Block()]
				r.Check(rule, FnName(fn)+": the index ranges over the chain's entries", r.P.Pos(cs.Pos()), lp != nil && ff.loopSpace(lp) == "i < len($0.Entries)", "")
			}
		}
	}
	r.Check(rule, "secretFromPrivateKey call sites", "", n >= 2, "")
}

func checkC18(r *Run) {
	r.Explain = "C18: (R1) decryption robustness: every slice/index on the decoded input of both Decrypt implementations is in bounds, no length arithmetic wraps, and the unauthenticated metadata handed to the KDF / AEAD is validated first (key length, nonce length, r, p; N bounded above); (R2) the three Lock implementations agree on the sequence pack secrets -> serialize -> encrypt -> mark encrypted -> erase clone -> erase wallet -> copy, succeed only after serialisation and encryption succeeded, and each Erase clears every secret its packSecrets exports (eraser covers packer); Unlock succeeds only after decrypt, deserialize and unpack succeeded."
	r.NotDec = "that ciphertext hides the secrets; wrong-password rejection (AEAD/checksum semantics); exact restoration as a value property"
	// an encrypted wallet is modified only between Unlock and Lock (GuardUpdate); the one direct path is the bip44
	// wallet, whose external addresses derive from the stored public chain key and add no secret
	if fn := r.fn("C18-R7", "wallet.Service.NewAddresses"); fn != nil {
		ff := r.P.Facts(fn)
		w := "wallet.Service.getWallet($0, $1)#0"
		nDirect := 0
		for _, b := range fn.Blocks {
			for _, in := range b.Instrs {
				ci, ok := in.(ssa.CallInstruction)
				if !ok {
					continue
				}
				cal := ci.Common().StaticCallee()
				if cal == nil || cal.Parent() != fn {
					continue
				}
				nDirect++
				var fs []string
				for _, a := range ff.MustAt(in) {
					fs = append(fs, a.S)
				}
				_, m := matchAny([]string{"!iface:wallet.Wallet.IsEncrypted(" + w + ")", "iface:wallet.Wallet.Type*(" + w + ") == \"bip44\"", "\"bip44\" == iface:wallet.Wallet.Type*(" + w + ")"}, fs)
				r.Check("C18-R7", "wallet.Service.NewAddresses: addresses are generated on the wallet directly only when it is not encrypted or is a bip44 wallet", r.P.Pos(in.Pos()), m, "an encrypted wallet of another type is modified without Unlock/Lock: secrets added to it stay in plaintext and the password is never checked")
			}
		}
		r.Check("C18-R7", "wallet.Service.NewAddresses: direct generation sites", r.P.Pos(fn.Pos()), nDirect == 2, fmt.Sprint(nDirect))
		r.RequireAtCall("C18-R7", "wallet.Service.NewAddresses", "wallet.GuardUpdate", 1, req("the guarded path is the encrypted one", "iface:wallet.Wallet.IsEncrypted("+w+")"))
	}
	// Lock and Unlock work on clones: the copy helpers of the wallet packages produce one distinct object per
	// element, never several pointers to one loop-carried variable
	nl, aliased := loopAliasedAddrs(r.P, "wallet.", "wallet/")
	r.Units["wallet loops inspected for aliased element pointers"] = nl
	for _, in := range aliased {
		r.Check("C18-R6", FnName(in.Parent())+": the address stored in the loop is a fresh object per iteration", r.P.Pos(in.Pos()), false, "the address of a variable declared outside the loop is stored in every iteration: all stored pointers alias the last element (the clone of a multi-element wallet loses the others)")
	}
	if nl < 40 {
		r.Fail("C18-R6", "wallet loops", "", fmt.Sprintf("anchor-unresolved: %d loops found in the wallet packages, hand-confirmed minimum is 40", nl))
	}
	r.Pass("C18-R6", "no wallet copy helper stores the address of a loop-carried variable", "", fmt.Sprintf("%d loops", nl))
	boundObligations(r, "C18-R1", "cipher/encrypt.ScryptChacha20poly1305.Decrypt", "cipher/encrypt.Sha256Xor.Decrypt")
	arithObligations(r, "C18-R1", "cipher/encrypt.ScryptChacha20poly1305.Decrypt")
	const sd = "cipher/encrypt.ScryptChacha20poly1305.Decrypt"
	r.RequireAtCall("C18-R1", sd, "cipher/scrypt.Key", 1,
		req("key length validated before the KDF", "local:m.KeyLen == 32", "*.KeyLen == 32"),
		req("metadata parsed", "ok(json.Unmarshal(*))"))
	r.RequireAtCall("C18-R1", sd, "iface:cipher.AEAD.Open", 1,
		req("nonce length validated before Open (the AEAD panics otherwise)", "len(local:m.Nonce) == 12", "len(*.Nonce) == 12"),
		req("key derived", "ok(cipher/scrypt.Key(*))"))
	r.RequireOnSuccess("C18-R1", "cipher/scrypt.Key",
		req("N is a power of two > 1", "1 < $2"),
		req("r positive", "0 < $3"), req("p positive", "0 < $4"))
	// N upper bound (allocation 128*r*N): must be bounded before allocation
	if fn := r.fn("C18-R1", sd); fn != nil {
		ff := r.P.Facts(fn)
		for _, cs := range r.CallSites(fn, "cipher/scrypt.Key") {
			args := cs.Common().Args
			upper := func(t string) (string, bool) {
				for _, a := range ff.MustAt(cs) {
					for _, pre := range []string{t, "int64(" + t + ")", "uint64(" + t + ")"} {
						for _, op := range []string{" <= ", " < "} {
							if strings.HasPrefix(a.S, pre+op) {
								return a.S, true
							}
						}
					}
				}
				return "", false
			}
			tN, tR, tP := ff.Term(args[2]), ff.Term(args[3]), ff.Term(args[4])
			bN, okN := upper(tN)
			_, okP := upper(tP)
			_, okR := upper(tR)
			if !okR && okN && strings.Contains(bN, "/ int64("+tR+")") {
				// N >= 1 and N <= C / r  =>  r <= C
				for _, a := range ff.MustAt(cs) {
					if a.S == "0 < "+tN {
						okR = true
					}
				}
			}
			why := "metadata is attacker-controlled and scrypt.Key only checks the power-of-two shape: N=1<<40 makes it panic (makeslice: len out of range), N around 1<<32 exhausts memory"
			r.Check("C18-R1", sd+": scrypt N from unauthenticated metadata is bounded above before the KDF allocates 128*r*N bytes", r.P.Pos(cs.Pos()), okN, why)
			r.Check("C18-R1", sd+": scrypt r from unauthenticated metadata is bounded above", r.P.Pos(cs.Pos()), okR, why)
			r.Check("C18-R1", sd+": scrypt p from unauthenticated metadata is bounded above before pbkdf2 allocates 128*r*p bytes", r.P.Pos(cs.Pos()), okP, why)
		}
	}
	// R2
	for _, wt := range []struct{ pkg, erase string }{{"wallet/deterministic", ""}, {"wallet/bip44wallet", ""}, {"wallet/collection", ""}} {
		lock := wt.pkg + ".Wallet.Lock"
		r.RequireOnSuccess("C18-R2", lock,
			req("not a temporary wallet", "!wallet.Meta.IsTemp($0.Meta)"),
			req("password given", "len($1) != 0"),
			req("secrets serialised", "ok(wallet.Secrets.Serialize(*))"),
			req("cipher available", "ok(cipher/crypto.GetCrypto(*))"),
			req("secrets encrypted with the password", "ok(iface:cipher/crypto.Cryptor.Encrypt(*, wallet.Secrets.Serialize(*)#0, $1))"))
		r.RequireCallOrder("C18-R2", lock, "pack -> serialize -> encrypt -> mark encrypted -> erase clone -> erase wallet -> copy",
			wt.pkg+".Wallet.packSecrets", "wallet.Secrets.Serialize", "iface:cipher/crypto.Cryptor.Encrypt", "wallet.Meta.SetEncrypted", wt.pkg+".Wallet.Erase", wt.pkg+".Wallet.copyFrom")
		if fn := r.P.Fn(lock); fn != nil {
			// both the clone and the receiver are erased before copyFrom
			ff := r.P.Facts(fn)
			recvErased, cloneErased := false, false
			for _, cs := range r.CallSites(fn, wt.pkg+".Wallet.Erase") {
				t := ff.Term(cs.Common().Args[0])
				if t == "$0" {
					recvErased = true
				} else if strings.Contains(t, ".Clone($0)") {
					cloneErased = true
				}
			}
			r.Check("C18-R2", lock+": the receiver and the working clone are both erased", r.P.Pos(fn.Pos()), recvErased && cloneErased, "")
		}
		// the cipher recorded in the locked wallet is the cipher that encrypted it (else Unlock cannot find it)
		if fn := r.P.Fn(lock); fn != nil {
			ff := r.P.Facts(fn)
			used, rec := "", ""
			for _, f := range append([]*ssa.Function{fn}, r.P.singleUseCallees(fn, 2)...) {
				hf := r.P.Facts(f)
				for _, cs := range r.CallSites(f, "cipher/crypto.GetCrypto") {
					t := hf.Term(cs.Common().Args[0])
					if f != fn {
						// express the helper's argument in Lock's terms
						for _, b := range fn.Blocks {
							for _, in := range b.Instrs {
								if ci, ok := in.(ssa.CallInstruction); ok && ci.Common().StaticCallee() == f {
									var args []string
									for _, a := range ci.Common().Args {
										args = append(args, ff.Term(a))
									}
									t = substParams(t, args)
								}
							}
						}
					}
					used = t
				}
			}
			for _, cs := range r.CallSites(fn, "wallet.Meta.SetEncrypted") {
				rec = ff.Term(cs.Common().Args[1])
			}
			r.Check("C18-R2", lock+": the crypto type recorded by SetEncrypted is the one the secrets were encrypted with", r.P.Pos(fn.Pos()), used != "" && used == rec, "encrypted with "+trunc(used, 120)+" but recorded "+trunc(rec, 120))
		}
		unlock := wt.pkg + ".Wallet.Unlock"
		r.RequireOnSuccess("C18-R2", unlock,
			req("password given", "len($1) != 0"),
			req("decrypted with the password", "ok(iface:cipher/crypto.Cryptor.Decrypt(*, []byte(wallet.Meta.Secrets($0.Meta)), $1))"),
			req("secrets deserialised", "ok(wallet.Secrets.Deserialize(*, iface:cipher/crypto.Cryptor.Decrypt(*)#0))"),
			req("secrets unpacked into the clone", "ok("+wt.pkg+".Wallet.unpackSecrets(*))"))
	}
	ruleBip44SecretCoordinates(r, "C18-R2")
	// eraser covers packer, level by level down the bip44 account hierarchy
	type ep struct {
		pack, erase string
		pairs       [][2]string // packer reads X  => eraser calls Y (with "" where Y is a setter)
	}
	calls := func(f *ssa.Function) map[string][]ssa.CallInstruction {
		m := map[string][]ssa.CallInstruction{}
		for _, b := range f.Blocks {
			for _, in := range b.Instrs {
				if ci, ok := in.(ssa.CallInstruction); ok {
					if _, bi := ci.Common().Value.(*ssa.Builtin); bi {
						continue
					}
					n := strings.TrimPrefix(calleeName(ci.Common()), "iface:")
					m[n] = append(m[n], ci)
				}
			}
		}
		return m
	}
	for _, e := range []ep{
		{"wallet/deterministic.Wallet.packSecrets", "wallet/deterministic.Wallet.Erase", [][2]string{{"wallet.Meta.Seed", "wallet.Meta.EraseSeeds"}, {"wallet.Meta.LastSeed", "wallet.Meta.SetLastSeed"}, {"cipher.SecKey.Hex", "wallet.Entries.Erase"}}},
		{"wallet/bip44wallet.Wallet.packSecrets", "wallet/bip44wallet.Wallet.Erase", [][2]string{{"wallet.Meta.Seed", "wallet.Meta.SetSeed"}, {"wallet.Meta.SeedPassphrase", "wallet.Meta.SetSeedPassphrase"}, {"wallet/bip44wallet.accountManager.packSecrets", "wallet/bip44wallet.accountManager.erase"}}},
		{"wallet/bip44wallet.bip44Accounts.packSecrets", "wallet/bip44wallet.bip44Accounts.erase", [][2]string{{"wallet/bip44wallet.bip44Account.packSecrets", "wallet/bip44wallet.bip44Account.erase"}}},
		{"wallet/bip44wallet.bip44Account.packSecrets", "wallet/bip44wallet.bip44Account.erase", [][2]string{{"cipher/bip44.Account.String", "store:$0.Account := zero"}, {"wallet/bip44wallet.bip44Chain.packSecrets", "wallet/bip44wallet.bip44Chain.erase"}}},
		{"wallet/bip44wallet.bip44Chain.packSecrets", "wallet/bip44wallet.bip44Chain.erase", [][2]string{{"cipher.SecKey.Hex", "wallet.Entries.Erase"}}},
		{"wallet/collection.Wallet.packSecrets", "wallet/collection.Wallet.Erase", [][2]string{{"cipher.SecKey.Hex", "wallet.Entries.Erase"}}},
		{"wallet.Meta.Seed", "wallet.Meta.EraseSeeds", [][2]string{{"", "wallet.Meta.SetSeed"}}},
	} {
		pf, ef := r.fn("C18-R2", e.pack), r.fn("C18-R2", e.erase)
		if pf == nil || ef == nil {
			continue
		}
		pc, ec := calls(pf), calls(ef)
		eff := r.P.Facts(ef)
		known := map[string]bool{}
		for _, p := range e.pairs {
			known[p[0]] = true
			if p[0] != "" && pc[p[0]] == nil {
				continue
			}
			ok, why := false, "packed secret is not erased by "+p[1]
			if strings.HasPrefix(p[1], "store:") {
				for _, st := range eff.StoreFacts() {
					if st.S == strings.TrimPrefix(p[1], "store:") {
						ok = true
					}
				}
			} else {
				for _, ci := range ec[p[1]] {
					ok = true
					// setters must be given the empty string
					if strings.Contains(p[1], ".Set") {
						args := ci.Common().Args
						if t := eff.Term(args[len(args)-1]); t != `""` {
							ok, why = false, p[1]+" is called with "+t+" instead of the empty string"
						}
					}
				}
			}
			r.Check("C18-R2", e.erase+" clears what "+e.pack+" exports via "+p[0], r.P.Pos(ef.Pos()), ok, why)
		}
		// every value-reading call of the packer must be in the table
		for n := range pc {
			if known[n] || n == "wallet.Secrets.Set" || strings.HasSuffix(n, ".String") && !strings.Contains(n, "Account") || strings.HasSuffix(n, "accountKeyName") || !strings.Contains(e.pack, "packSecrets") {
				continue
			}
			r.Check("C18-R2", e.pack+" exports "+n+" (has an eraser counterpart)", r.P.Pos(pf.Pos()), false, "packer reads a value with no registered eraser: extend the eraser or the table")
		}
	}
	// Entries.Erase zeroes the secret of every entry
	r.RequireStore("C18-R2", "wallet.Entries.Erase", "every entry's secret key is overwritten", "$0[i].Secret := zero")
	if fn := r.fn("C18-R2", "wallet.Entries.Erase"); fn != nil {
		ff := r.P.Facts(fn)
		for _, st := range ff.StoreFacts() {
			if st.S == "$0[i].Secret := zero" {
				lp := ff.innermost[st.In.Block()]
				r.Check("C18-R2", "wallet.Entries.Erase: the overwrite runs for every entry", r.P.Pos(st.In.Pos()), lp != nil && ff.loopSpace(lp) == "i < len($0)" && ff.everyIteration(st.In.Block(), lp), "")
			}
		}
	}
}
