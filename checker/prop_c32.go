package main

import (
	"fmt"
	"go/token"
	"go/types"
	"sort"
	"strings"

	"golang.org/x/tools/go/ssa"
)

func init() { props["C32"] = checkC32 }

func checkC32(r *Run) {
	r.Explain = "(R1+) Shutdown closes quit, then waits for the strand goroutine (<-strandDone), and only afterwards touches strand-owned state directly (disconnectAll, map reads); (R4+) strand.Strand returns the caller's pool-closed error whenever it leaves a wait on the quit channel and returns the closure's result only after the done channel was closed; C32: (R1) the strand-owned state of gnet.ConnectionPool (the connection maps and the id counter) is touched only inside closures passed to pool.strand, in functions called only from such closures, or in the reviewed start-up/shutdown functions; (R2) pool.listener is accessed only with listenerLock held; (R3) a variable written by a strand closure is read by the caller only when strand returned nil (on shutdown the closure may still be running); (R4) shutdown terminates: every goroutine counted by a WaitGroup calls Done on all exits, channels that workers range over are closed on all exits of their producer, every buffered error channel can absorb all blocking sends of its sender goroutines, and strand.Strand returns when quit is closed in both of its wait loops."
	r.NotDec = "races outside the ownership discipline (e.g. on Connection.Buffer), liveness under real network stalls"
	owned := []string{"pool", "addresses", "defaultOutgoingConnections", "outgoingConnections", "incomingConnections", "connID"}
	res := r.P.strandContext("daemon/gnet", "ConnectionPool", owned, "daemon/gnet.ConnectionPool.strand", map[string]string{
		"daemon/gnet.NewConnectionPool":       "constructor: the pool is not shared yet",
		"daemon/gnet.ConnectionPool.Shutdown": "touches the maps only after <-pool.strandDone (checked below)",
	})
	sort.Slice(res, func(i, j int) bool { return FnName(res[i].Fn) < FnName(res[j].Fn) })
	for _, lr := range res {
		r.Check("C32-R1", FnName(lr.Fn)+" touches strand-owned ConnectionPool."+lr.Field, r.P.Pos(lr.Pos), lr.OK, lr.Why)
	}
	r.Min("C32-R1", 12)
	// Shutdown: owned-field accesses come after the receive on strandDone
	if fn := r.fn("C32-R1", "daemon/gnet.ConnectionPool.Shutdown"); fn != nil {
		ff := r.P.Facts(fn)
		var recv ssa.Instruction
		for _, b := range fn.Blocks {
			for _, in := range b.Instrs {
				if u, ok := in.(*ssa.UnOp); ok && u.Op.String() == "<-" && strings.HasSuffix(ff.Term(u.X), ".strandDone") {
					recv = u
				}
			}
		}
		for _, b := range fn.Blocks {
			for _, in := range b.Instrs {
				fa, ok := in.(*ssa.FieldAddr)
				if !ok {
					continue
				}
				st := derefStruct(fa.X.Type())
				name := st.Field(fa.Field).Name()
				isOwned := false
				for _, o := range owned {
					if o == name {
						isOwned = true
					}
				}
				if !isOwned {
					continue
				}
				ok2 := recv != nil && (recv.Block().Dominates(b) && (recv.Block() != b || recv.Pos() < fa.Pos()))
				r.Check("C32-R1", "Shutdown touches ConnectionPool."+name+" only after the strand goroutine has finished", r.P.Pos(fa.Pos()), ok2, "")
			}
		}
	}
	// R2 listener lock
	for _, fn := range r.P.ModFns {
		if !strings.HasPrefix(FnName(fn), "daemon/gnet.") {
			continue
		}
		for _, b := range fn.Blocks {
			for _, in := range b.Instrs {
				fa, ok := in.(*ssa.FieldAddr)
				if !ok {
					continue
				}
				st := derefStruct(fa.X.Type())
				if st == nil || st.Field(fa.Field).Name() != "listener" || !strings.HasSuffix(typeShort(fa.X.Type()), "daemon/gnet.ConnectionPool") {
					continue
				}
				if _, fresh := fa.X.(*ssa.Alloc); fresh {
					continue
				}
				held := lockHeldAt(r.P, fn, fa, "listenerLock")
				r.Check("C32-R2", FnName(fn)+" accesses pool.listener with listenerLock held", r.P.Pos(fa.Pos()), held, "gnet.ConnectionPool.listener is read/written without listenerLock: data race with Run/Shutdown")
			}
		}
	}
	r.Min("C32-R2", 4)
	// R3
	for _, lr := range r.P.strandHandoff("daemon/gnet.ConnectionPool.strand", "daemon/gnet") {
		r.Check("C32-R3", FnName(lr.Fn)+": strand result "+lr.Field+" read only on success", r.P.Pos(lr.Pos), lr.OK, lr.Why)
	}
	r.Min("C32-R3", 5)
	// R4
	for _, f := range []string{"daemon/gnet.ConnectionPool.Run", "daemon/gnet.ConnectionPool.handleConnection", "daemon/gnet.ConnectionPool.readLoop"} {
		fn := r.fn("C32-R4", f)
		if fn == nil {
			continue
		}
		for _, pr := range r.P.goroutinePairing(fn) {
			r.Check("C32-R4", pr.Desc, r.P.Pos(pr.Pos), pr.OK, pr.Why)
		}
		for _, pr := range r.P.sendCapacity(fn) {
			r.Check("C32-R4", pr.Desc, r.P.Pos(pr.Pos), pr.OK, pr.Why)
		}
	}
	r.Min("C32-R4", 5)
	// code that runs on the strand never blocks on a channel: a closure handed to pool.strand (and what it calls
	// inside package gnet) sends only inside a select with a default / quit case and never receives outside one,
	// otherwise one stalled peer stops the strand and with it every pool call and Shutdown
	nStrand := 0
	seenF := map[*ssa.Function]bool{}
	var walkStrand func(f *ssa.Function, root string, d int)
	walkStrand = func(f *ssa.Function, root string, d int) {
		if f == nil || seenF[f] || f.Blocks == nil || d > 3 {
			return
		}
		seenF[f] = true
		for _, b := range f.Blocks {
			for _, in := range b.Instrs {
				switch x := in.(type) {
				case *ssa.Send:
					r.Check("C32-R5", root+": no blocking channel send on the strand (in "+FnName(f)+")", r.P.Pos(x.Pos()), false, "a plain send blocks the strand goroutine while the receiver is not ready")
				case *ssa.Select:
					if x.Blocking {
						r.Check("C32-R5", root+": selects on the strand have a default case (in "+FnName(f)+")", r.P.Pos(x.Pos()), false, "a blocking select on the strand")
					}
				case *ssa.UnOp:
					if x.Op == token.ARROW {
						r.Check("C32-R5", root+": no blocking channel receive on the strand (in "+FnName(f)+")", r.P.Pos(x.Pos()), false, "")
					}
				case ssa.CallInstruction:
					if cal := x.Common().StaticCallee(); cal != nil && cal.Pkg != nil && strings.HasSuffix(cal.Pkg.Pkg.Path(), "/daemon/gnet") && FnName(cal) != "daemon/gnet.ConnectionPool.strand" {
						walkStrand(cal, root, d+1)
					}
					if mc, ok := x.Common().Value.(*ssa.MakeClosure); ok {
						if cf, ok := mc.Fn.(*ssa.Function); ok {
							walkStrand(cf, root, d+1)
						}
					}
				}
			}
		}
	}
	for _, fn := range r.P.ModFns {
		if !strings.HasPrefix(FnName(fn), "daemon/gnet.") {
			continue
		}
		for _, cs := range r.CallSites(fn, "daemon/gnet.ConnectionPool.strand") {
			for _, a := range cs.Common().Args {
				if mc, ok := a.(*ssa.MakeClosure); ok {
					if cf, ok := mc.Fn.(*ssa.Function); ok {
						nStrand++
						walkStrand(cf, FnName(fn), 0)
					}
				}
			}
		}
	}
	r.Units["strand closures inspected for blocking channel operations"] = nStrand
	r.Check("C32-R5", "closures handed to the strand", "", nStrand >= 10, fmt.Sprint(nStrand))
	r.Pass("C32-R5", "no closure run on the strand blocks on a channel", "", fmt.Sprintf("%d closures and their gnet callees", nStrand))
	// Shutdown waits for strandDone and every pool call is served by the strand: the strand goroutine is started
	// before Run can return for any reason (a listen failure included)
	if fn := r.fn("C32-R4", "daemon/gnet.ConnectionPool.Run"); fn != nil {
		var goBlk *ssa.BasicBlock
		for _, b := range fn.Blocks {
			for _, in := range b.Instrs {
				g, isGo := in.(*ssa.Go)
				if !isGo {
					continue
				}
				starts := calleeName(&g.Call) == "daemon/gnet.ConnectionPool.processStrand"
				if mc, ok := g.Call.Value.(*ssa.MakeClosure); ok {
					if cf, ok := mc.Fn.(*ssa.Function); ok && len(r.CallSites(cf, "daemon/gnet.ConnectionPool.processStrand")) > 0 {
						starts = true
					}
				}
				if starts {
					goBlk = b
				}
			}
		}
		r.Check("C32-R4", "ConnectionPool.Run starts the strand goroutine", r.P.Pos(fn.Pos()), goBlk != nil, "")
		if goBlk != nil {
			for _, b := range fn.Blocks {
				if _, isRet := b.Instrs[len(b.Instrs)-1].(*ssa.Return); isRet && b != fn.Recover {
					r.Check("C32-R4", "ConnectionPool.Run: the strand goroutine is running before this return", r.P.Pos(b.Instrs[len(b.Instrs)-1].Pos()), goBlk == b || goBlk.Dominates(b), "Run can return without ever starting processStrand: strandDone is never closed and Shutdown (and every strand call) blocks forever")
				}
			}
		}
	}
	// Shutdown closes the listener it finds; when it ran before Run stored the listener it found none, so Run
	// re-checks quit after storing the listener and before it blocks in Accept (otherwise Accept never returns
	// and Shutdown waits on pool.done for ever)
	if fn := r.fn("C32-R4", "daemon/gnet.ConnectionPool.Run"); fn != nil {
		ff := r.P.Facts(fn)
		var storeBlk, acceptBlk *ssa.BasicBlock
		var quitSel []*ssa.BasicBlock
		for _, b := range fn.Blocks {
			for _, in := range b.Instrs {
				switch x := in.(type) {
				case *ssa.Store:
					if strings.HasSuffix(ff.Term(x.Addr), ".listener") && !isNilConst(x.Val) {
						storeBlk = b
					}
				case *ssa.Select:
					for _, st := range x.States {
						if st.Dir == types.RecvOnly && strings.HasSuffix(ff.Term(st.Chan), ".quit") {
							quitSel = append(quitSel, b)
						}
					}
				case ssa.CallInstruction:
					if x.Common().IsInvoke() && x.Common().Method.Name() == "Accept" {
						acceptBlk = b
					}
				}
			}
		}
		r.Check("C32-R4", "ConnectionPool.Run stores the listener and accepts on it", r.P.Pos(fn.Pos()), storeBlk != nil && acceptBlk != nil, "")
		if storeBlk != nil && acceptBlk != nil {
			ok := false
			for _, sb := range quitSel {
				if (storeBlk == sb || storeBlk.Dominates(sb)) && sb != acceptBlk && sb.Dominates(acceptBlk) {
					ok = true
				}
			}
			r.Check("C32-R4", "ConnectionPool.Run re-checks quit between storing the listener and the first Accept", r.P.Pos(acceptBlk.Instrs[0].Pos()), ok,
				"a Shutdown that ran before the listener was stored closed nothing: Accept blocks for ever, pool.done is never closed and Shutdown does not terminate")
		}
	}
	// done / strandDone are closed by a defer in the entry block of Run / processStrand
	for _, c := range []struct{ fn, ch string }{{"daemon/gnet.ConnectionPool.Run", "pool.done"}, {"daemon/gnet.ConnectionPool.processStrand", "pool.strandDone"}} {
		fn := r.fn("C32-R4", c.fn)
		if fn == nil {
			continue
		}
		gf := r.P.Facts(fn)
		ok := false
		for _, in := range fn.Blocks[0].Instrs {
			if d, isD := in.(*ssa.Defer); isD && calleeName(&d.Call) == "close" && varName(gf, d.Call.Args[0]) == c.ch {
				ok = true
			}
		}
		r.Check("C32-R4", c.fn+" closes "+c.ch+" by a defer in its entry block", r.P.Pos(fn.Pos()), ok, "Shutdown waits on this channel")
	}
	// Shutdown touches the strand-owned maps directly (it is on the allowed list for that reason): sound only
	// after the strand goroutine has stopped — quit is closed, then strandDone is awaited, and only then come
	// disconnectAll and the direct reads of the maps
	if fn := r.fn("C32-R1", "daemon/gnet.ConnectionPool.Shutdown"); fn != nil {
		ff := r.P.Facts(fn)
		var closeQuit, waitStrand ssa.Instruction
		var direct []ssa.Instruction
		for _, b := range fn.Blocks {
			for _, in := range b.Instrs {
				switch x := in.(type) {
				case *ssa.Call:
					n := calleeName(&x.Call)
					if n == "close" && strings.HasSuffix(ff.Term(x.Call.Args[0]), ".quit") {
						closeQuit = x
					}
					if n == "daemon/gnet.ConnectionPool.disconnectAll" {
						direct = append(direct, x)
					}
				case *ssa.UnOp:
					if x.Op == token.ARROW && strings.HasSuffix(ff.Term(x.X), ".strandDone") {
						waitStrand = x
					}
				case *ssa.FieldAddr:
					if st := derefStruct(x.X.Type()); st != nil {
						switch st.Field(x.Field).Name() {
						case "pool", "addresses", "defaultOutgoingConnections", "outgoingConnections":
							direct = append(direct, x)
						}
					}
				}
			}
		}
		before := func(a, b ssa.Instruction) bool {
			if a == nil || b == nil {
				return false
			}
			if a.Block() == b.Block() {
				for _, in := range a.Block().Instrs {
					if in == a {
						return true
					}
					if in == b {
						return false
					}
				}
			}
			return a.Block().Dominates(b.Block())
		}
		r.Check("C32-R1", "Shutdown: quit is closed before waiting for the strand goroutine", r.P.Pos(fn.Pos()), before(closeQuit, waitStrand), "")
		okAll := len(direct) >= 2
		for _, d := range direct {
			if !before(waitStrand, d) {
				okAll = false
				r.Check("C32-R1", "Shutdown: strand-owned state is touched directly only after the strand goroutine has stopped (<-strandDone)", r.P.Pos(d.Pos()), false, "this access can run concurrently with a strand closure that is still executing")
			}
		}
		r.Check("C32-R1", "Shutdown: every direct access to strand-owned state follows <-strandDone", r.P.Pos(fn.Pos()), okAll, fmt.Sprintf("%d direct accesses", len(direct)))
	}
	// strand.Strand returns on quit in both waits
	if fn := r.fn("C32-R4", "daemon/strand.Strand"); fn != nil {
		n := 0
		for _, b := range fn.Blocks {
			for _, in := range b.Instrs {
				if s, ok := in.(*ssa.Select); ok {
					hasQuit := false
					for _, st := range s.States {
						if varName(r.P.Facts(fn), st.Chan) == "quit" {
							hasQuit = true
						}
					}
					n++
					r.Check("C32-R4", "strand.Strand: select includes the quit channel", r.P.Pos(s.Pos()), hasQuit, "a wait without the quit case blocks shutdown")
				}
			}
		}
		r.Check("C32-R4", "strand.Strand: both waits are selects", r.P.Pos(fn.Pos()), n >= 2, "")
		// what each wait returns: leaving on quit returns the caller's quit error; the closure's result is read
		// only after the done channel was closed (the closure finished: no race on err, no nil for an unfinished call)
		ff := r.P.Facts(fn)
		sels := map[string]*ssa.Select{}
		for _, b := range fn.Blocks {
			for _, in := range b.Instrs {
				if sl, ok := in.(*ssa.Select); ok {
					sels["select@"+sl.Name()] = sl
				}
			}
		}
		nRet := 0
		for _, e := range ff.Exits() {
			if e.Ret == nil || len(e.Ret.Results) != 1 {
				continue
			}
			nRet++
			// deciding select: the selected-case atom whose select is dominated by all the others
			var dec *ssa.Select
			decIdx := -1
			for _, a := range ff.Must(e.Block) {
				m := globCapture("select@*#0 == *", a.S)
				if m == nil || strings.HasPrefix(a.S, "forall") {
					continue
				}
				sl := sels["select@"+m[0]]
				var k int
				if nn, _ := fmt.Sscanf(m[1], "%d", &k); sl == nil || nn != 1 {
					continue
				}
				if dec == nil || dec.Block().Dominates(sl.Block()) {
					dec, decIdx = sl, k
				}
			}
			t := ff.Term(e.Ret.Results[0])
			role := ""
			if dec != nil && decIdx >= 0 && decIdx < len(dec.States) {
				// quit = the chan struct{} parameter; done = a channel created in this function (closed by the request closure)
				ch := dec.States[decIdx].Chan
				if prm, ok := ch.(*ssa.Parameter); ok {
					if ct, ok := prm.Type().Underlying().(*types.Chan); ok {
						if st, ok := ct.Elem().Underlying().(*types.Struct); ok && st.NumFields() == 0 {
							role = "quit"
						}
					}
				} else if _, isMake := ch.(*ssa.MakeChan); isMake {
					role = "done"
				} else if u, ok := ch.(*ssa.UnOp); ok {
					if al, ok := u.X.(*ssa.Alloc); ok {
						for _, rf := range *al.Referrers() {
							if st, ok := rf.(*ssa.Store); ok && st.Addr == al {
								if _, isMake := st.Val.(*ssa.MakeChan); isMake {
									role = "done"
								}
								if prm, ok := st.Val.(*ssa.Parameter); ok {
									if ct, ok := prm.Type().Underlying().(*types.Chan); ok {
										if stt, ok := ct.Elem().Underlying().(*types.Struct); ok && stt.NumFields() == 0 {
											role = "quit"
										}
									}
								}
							}
						}
					}
				}
			}
			switch role {
			case "quit":
				r.Check("C32-R4", "strand.Strand: leaving a wait on quit returns the pool-closed error given by the caller", r.P.Pos(e.Ret.Pos()), t == "$5", "returns "+t+" (the closure may still be running: its result is not final and reading it races with the strand goroutine)")
			case "done":
				r.Check("C32-R4", "strand.Strand: the closure's result is returned after done was closed", r.P.Pos(e.Ret.Pos()), t == "local:error" || t == "var:error", "returns "+t)
			default:
				r.Check("C32-R4", "strand.Strand: every return is decided by the quit or the done case", r.P.Pos(e.Ret.Pos()), false, "return of "+t+" not under a quit/done case")
			}
		}
		r.Check("C32-R4", "strand.Strand: return sites", "", nRet == 3, fmt.Sprint(nRet))
	}
}

// lockHeldAt: a Lock() on field lockField of the same receiver dominates the access
// and no direct Unlock() lies between (deferred unlocks run at exit).
func lockHeldAt(p *Program, fn *ssa.Function, at ssa.Instruction, lockField string) bool {
	ff := p.Facts(fn)
	var locks, unlocks []ssa.Instruction
	for _, b := range fn.Blocks {
		for _, in := range b.Instrs {
			c, ok := in.(*ssa.Call)
			if !ok || len(c.Call.Args) == 0 {
				continue
			}
			if !strings.HasSuffix(ff.Term(c.Call.Args[0]), "."+lockField) {
				continue
			}
			switch calleeName(&c.Call) {
			case "sync.Mutex.Lock":
				locks = append(locks, c)
			case "sync.Mutex.Unlock":
				unlocks = append(unlocks, c)
			}
		}
	}
	before := func(a, b ssa.Instruction) bool { // a strictly before b on every path to b
		if a.Block() == b.Block() {
			for _, in := range a.Block().Instrs {
				if in == a {
					return true
				}
				if in == b {
					return false
				}
			}
		}
		return a.Block().Dominates(b.Block())
	}
	for _, l := range locks {
		if !before(l, at) {
			continue
		}
		released := false
		for _, u := range unlocks {
			if before(l, u) && before(u, at) {
				released = true
			}
		}
		if !released {
			return true
		}
	}
	// closure of a locked parent: the parent locked before creating/calling it
	return false
}
