package main

import "strings"

func init() { props["C05"] = checkC05 }

func checkC05(r *Run) {
	r.Explain = "C05: (R1) createBlockFromTxns keeps a pending transaction only if it passed hard+soft verification with the block-creation parameters, then sorts by fee (computed at the head time), truncates to the configured block size, caps at MaxBlockTransactions and builds the block from exactly that list; (R2) the order is fee-per-kB descending with ties by ascending hash, Swap permutes the three parallel slices together, the priority is fee*1024/size with saturation; (R3) TruncateBytesTo keeps the longest prefix whose checked running size stays within the limit; (R4) when pending transactions conflict the later one in that order is dropped (all pairs examined), and NewBlock re-verifies header and transactions of what it built."
	r.NotDec = "acceptance by an independent follower for concrete pools (follows structurally from C01/C02/C04 rules on the same functions)"
	ruleMathutilIdioms(r, "C05-R3")
	ruleNoCrossedConfig(r, "C05-R0")
	ruleTransactionIsLocked(r, "C05-R1")
	ruleChainConfigPassthrough(r, "C05-R4")
	const f = "visor.Visor.createBlockFromTxns"
	// the candidates are the whole pool (raw), not a cached verdict: the conflict winner is decided among all of them
	for _, cs := range r.RequireAtCall("C05-R1", "visor.Visor.createBlock", f, 1, req("pool read", "ok(iface:visor.UnconfirmedTransactionPooler.AllRawTransactions($0.unconfirmed, $1))")) {
		r.Check("C05-R1", "visor.Visor.createBlock: the block is made from all raw transactions of the unconfirmed pool", r.P.Pos(cs.Pos()),
			r.argTerm(cs, 2) == "iface:visor.UnconfirmedTransactionPooler.AllRawTransactions($0.unconfirmed, $1)#0" && r.argTerm(cs, 1) == "$1" && r.argTerm(cs, 3) == "$2", r.argTerm(cs, 2))
	}
	v := "iface:visor.Blockchainer.VerifySingleTxnSoftHardConstraints($0.blockchain, $1, $2[i], $0.Config.Distribution, $0.Config.CreateBlockVerifyTxn, 1)"
	r.RequireAtStore("C05-R1", f, "local:varargs[0] := $2[i]", 1, req("kept only if hard and soft rules pass with the block-creation parameters (signed)", "ok("+v+")"))
	F := "fold[acc*=nil; append(acc*, [$2[i]])]"
	head := "iface:visor.Blockchainer.Head($0.blockchain, $1)#0"
	S := "coin.SortTransactions(" + F + ", iface:visor.Blockchainer.TransactionFee($0.blockchain, $1, " + head + ".Block.Head.Time))"
	T := "coin.Transactions.TruncateBytesTo(" + S + "#0, $0.Config.MaxBlockTransactionsSize)"
	sites := r.RequireAtCall("C05-R1", f, "iface:visor.Blockchainer.NewBlock", 1,
		req("head read", "ok(iface:visor.Blockchainer.Head($0.blockchain, $1))"),
		req("sorted by fee at the head time", "ok("+S+")"),
		req("truncated to the configured block size", "ok("+T+")"),
		req("something left after filtering", "len("+F+") != 0"))
	for _, cs := range sites {
		t := r.argTerm(cs, 1)
		ok := glob("φ("+T+"#0[:65535]|"+T+"#0)", t) || glob("φ("+T+"#0|"+T+"#0[:65535])", t)
		r.Check("C05-R1", f+": the block is built from the filtered, sorted, size-truncated list capped at MaxBlockTransactions", r.P.Pos(cs.Pos()), ok, trunc(t, 400))
		r.Check("C05-R1", f+": block time is the caller's", r.P.Pos(cs.Pos()), r.argTerm(cs, 2) == "$3", r.argTerm(cs, 2))
	}
	// cap applied exactly when longer
	if fn := r.P.Fn(f); fn != nil {
		ff := r.P.Facts(fn)
		found := false
		for _, b := range fn.Blocks {
			for _, a := range ff.Must(b) {
				if glob("65535 < len("+T+"#0)", a.S) {
					found = true
				}
			}
		}
		r.Check("C05-R1", f+": the MaxBlockTransactions cap is conditional on len > 65535", r.P.Pos(fn.Pos()), found, "")
	}
	// R2
	r.ReturnShape("C05-R2", "coin.SortableTransactions.Less", 0,
		ShapeCase{"$0.Fees[$1] == $0.Fees[$2]", "(bytes.Compare($0.Hashes[$1][:], $0.Hashes[$2][:]) < 0)"},
		ShapeCase{"$0.Fees[$1] != $0.Fees[$2]", "($0.Fees[$1] > $0.Fees[$2])"})
	for _, st := range []string{"$0.Transactions[$1] := $0.Transactions[$2]", "$0.Transactions[$2] := $0.Transactions[$1]", "$0.Fees[$1] := $0.Fees[$2]", "$0.Fees[$2] := $0.Fees[$1]", "$0.Hashes[$1] := $0.Hashes[$2]", "$0.Hashes[$2] := $0.Hashes[$1]"} {
		r.RequireStore("C05-R2", "coin.SortableTransactions.Swap", "parallel slices swapped together: "+st, st)
	}
	j := "fold[acc=0; (acc + 1)]"
	nst := "coin.NewSortableTransactions"
	r.RequireStore("C05-R2", nst, "transaction kept at the next slot", "make(coin.Transactions, len($0))["+j+"] := $0[i]")
	r.RequireStore("C05-R2", nst, "its hash in the parallel slot", "make([]cipher.SHA256, len($0))["+j+"] := coin.Transaction.SizeHash($0[i])#1")
	r.RequireStore("C05-R2", nst, "priority = fee*1024/size, saturating at MaxUint64", "make([]uint64, len($0))["+j+"] := (φ(18446744073709551615|util/mathutil.MultUint64(dyn:$1($0[i])#0, 1024)#0) / uint64(coin.Transaction.SizeHash($0[i])#0))")
	r.RequireAtStore("C05-R2", nst, "make([]uint64, len($0))["+j+"] := *", 1,
		req("only transactions whose fee could be computed", "ok(dyn:$1($0[i]))"), req("size and hash computed", "ok(coin.Transaction.SizeHash($0[i]))"))
	r.RequireOnSuccess("C05-R2", "coin.SortTransactions", req("built with the fee calculator", "ok(coin.NewSortableTransactions($0, $1))"))
	if fn := r.fn("C05-R2", "coin.SortTransactions"); fn != nil {
		r.Check("C05-R2", "SortTransactions sorts before returning", r.P.Pos(fn.Pos()), len(r.CallSites(fn, "coin.SortableTransactions.Sort")) == 1, "")
	}
	// R3
	const tb = "coin.Transactions.TruncateBytesTo"
	sz := "coin.Transaction.Size($0[i])"
	tot := "util/mathutil.AddUint32(fold[acc=0; util/mathutil.AddUint32(acc, " + sz + "#0)#0], " + sz + "#0)"
	if fn := r.fn("C05-R3", tb); fn != nil {
		ff := r.P.Facts(fn)
		for _, lp := range ff.loops {
			for _, lt := range lp.Latches {
				var fs []string
				for _, a := range ff.Must(lt) {
					fs = append(fs, a.S)
				}
				_, m1 := matchAny([]string{tot + "#0 <= $1"}, fs)
				_, m2 := matchAny([]string{"ok(" + tot + ")"}, fs)
				r.Check("C05-R3", tb+": a transaction is kept only if the checked running size stays within the limit", r.P.Pos(ff.condPos(lt)), m1 && m2, strings.Join(fs, " ; "))
			}
		}
	}
	r.ReturnShape("C05-R3", tb, 0,
		ShapeCase{"$1 < " + tot + "#0", "$0[:i]"},
		ShapeCase{"err(" + tot + ")", "$0[:i]"},
		ShapeCase{"len($0) <= i", "$0"},
		ShapeCase{"err(" + sz + ")", "nil"})
	boundObligations(r, "C05-R3", tb)
	// R4
	ruleProcessTxnsConflicts(r, "C05-R4")
	pt := "visor.Blockchain.processTransactions($0, $1, $2)"
	nb := "coin.NewBlock(iface:visor.chainStore.Head($0.store, $1)#0.Block, $3, iface:visor/blockdb.UnspentPooler.GetUxHash(visor.Blockchain.Unspent($0), $1)#0, " + pt + "#0, visor.Blockchain.TransactionFee($0, $1, iface:visor.chainStore.Head($0.store, $1)#0.Block.Head.Time))"
	r.RequireOnSuccess("C05-R4", "visor.Blockchain.NewBlock",
		req("block time later than the head", "iface:visor.chainStore.Head($0.store, $1)#0.Block.Head.Time < $3"),
		req("transactions arbitrated/verified first", "ok("+pt+")"),
		req("block built on the head with the current unspent checksum and the processed transactions", "ok("+nb+")"),
		req("header of the built block re-verified", "when: true => ok(visor.Blockchain.verifyBlockHeader($0, $1, "+nb+"#0))"),
		req("transactions of the built block re-verified", "when: true => ok(visor.Blockchain.processTransactions($0, $1, coin.NewBlock(*)#0.Body.Transactions))"))
}
