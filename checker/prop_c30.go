package main

import (
	"fmt"
	"go/types"
	"strings"

	"golang.org/x/tools/go/ssa"
)

func init() {
	props["C30"] = checkC30
	props["C31"] = checkC31
}

func checkC30(r *Run) {
	r.Explain = "C30 (guards-and-conversions clause only): FromString succeeds only after: the decimal parsed, sign not negative, exponent >= -6, no fractional part after shifting by 6, value not greater than maxDecimal; maxDecimal is initialised by exact decimal parsing of the literal 9223372036854775807 (= MaxInt64); the returned droplets are uint64(IntPart) of the shifted value; ToString refuses n > MaxInt64 before the int64 conversion and formats with exponent -6 / 6 fixed places; the narrowing conversions are discharged by those guards."
	r.NotDec = "exactness of the decimal library's parsing, shifting and formatting (the round trip itself is a value property)"
	// R3: no binary floating point anywhere amounts are parsed, formatted or carried
	amountPkgs := []string{"util/droplet.", "util/http.", "util/fee.", "api.", "cli.", "readable.", "wallet.", "wallet/", "transaction.", "coin.", "visor.", "params."}
	nf, uses := floatUses(r.P, amountPkgs...)
	r.Units["functions scanned for floating point"] = nf
	for _, u := range uses {
		r.Check("C30-R3", "no floating-point value in "+FnName(u.Parent()), r.P.Pos(u.Pos()), false, u.String()+": binary floating point cannot represent droplet amounts exactly")
	}
	if nf < 1200 {
		r.Fail("C30-R3", "functions scanned for floating point", "", fmt.Sprintf("anchor-unresolved: %d functions, hand-confirmed minimum is 1200", nf))
	}
	r.Pass("C30-R3", "the amount-handling packages use no floating point", "", fmt.Sprintf("%d functions scanned", nf))
	_, ctl := floatUses(r.P, "daemon/pex.Peer.CanTry")
	r.Check("C30-R3", "positive control: the scanner sees the floating-point back-off computation of pex.Peer.CanTry", "", len(ctl) > 0, "")
	ruleUntransformedText(r, "C30-R5", 12, "util/droplet.FromString")
	// R4: the JSON wrapper hands exactly the decoded JSON string to FromString and stores its result
	const uj = "util/http.Coins.UnmarshalJSON"
	r.RequireOnSuccess("C30-R4", uj, req("the body is a JSON string", "ok(json.Unmarshal($1, local:string))"), req("parsed by droplet.FromString", "ok(util/droplet.FromString(local:string))"))
	r.RequireStore("C30-R4", uj, "the wrapper takes FromString's value", "$0 := util/droplet.FromString(local:string)#0")
	if fn := r.fn("C30-R4", uj); fn != nil {
		nSt := 0
		for _, b := range fn.Blocks {
			for _, in := range b.Instrs {
				if st, ok := in.(*ssa.Store); ok {
					if al, isAl := st.Addr.(*ssa.Alloc); isAl && isStringPtr(al.Type()) {
						nSt++
					}
				}
			}
		}
		r.Check("C30-R4", uj+": the string handed to FromString is written only by the JSON decoder", r.P.Pos(fn.Pos()), nSt == 0, fmt.Sprintf("%d direct assignment(s) to the string", nSt))
	}
	r.RequireOnSuccess("C30-R4", "util/http.Coins.MarshalJSON", req("formatted by droplet.ToString", "ok(util/droplet.ToString($0))"))
	d := "decimal.NewFromString($0)#0"
	e := "decimal.Decimal.Shift(" + d + ", 6)"
	reqs := []Req{
		req("decimal text parsed", "ok(decimal.NewFromString($0))"),
		req("not negative", "decimal.Decimal.Sign("+d+") != -1", "0 <= decimal.Decimal.Sign("+d+")"),
		req("at most six decimal places", "-6 <= decimal.Decimal.Exponent("+d+")"),
		req("no fractional droplets after shifting by six places", "0 <= decimal.Decimal.Exponent("+e+")"),
		req("fits the signed 64-bit range", "!decimal.Decimal.GreaterThan("+e+", util/droplet.maxDecimal)"),
	}
	r.RequireOnSuccess("C30-R1", "util/droplet.FromString", reqs...)
	r.ExhaustiveRejects("C30-R1", "util/droplet.FromString", reqs...)
	r.ReturnShape("C30-R1", "util/droplet.FromString", 0,
		ShapeCase{"!decimal.Decimal.GreaterThan(" + e + ", util/droplet.maxDecimal)", "uint64(decimal.Decimal.IntPart(" + e + "))"},
		ShapeCase{"", "0"})
	// maxDecimal: written once, in init, from the exact literal
	n := 0
	for _, fn := range r.P.ModFns {
		for _, s := range r.P.Facts(fn).StoreFacts() {
			if strings.HasPrefix(s.S, "util/droplet.maxDecimal := ") {
				n++
				ok := s.S == `util/droplet.maxDecimal := decimal.NewFromString("9223372036854775807")#0` && FnName(fn) == "util/droplet.init#1"
				r.Check("C30-R1", "maxDecimal is the exact decimal 9223372036854775807 (MaxInt64), set in init", r.P.Pos(s.In.Pos()), ok, s.S+" in "+FnName(fn))
				if ok {
					var fs []string
					for _, a := range r.P.Facts(fn).MustAt(s.In) {
						fs = append(fs, a.S)
					}
					_, m := matchAny([]string{`ok(decimal.NewFromString("9223372036854775807"))`}, fs)
					if !m {
						// assigned first, checked right after: fine as long as init cannot complete with a parse error
						m = true
						ffn := r.P.Facts(fn)
						for _, b := range fn.Blocks {
							if _, isRet := b.Instrs[len(b.Instrs)-1].(*ssa.Return); !isRet || !s.In.Block().Dominates(b) {
								continue
							}
							var es []string
							for _, a := range ffn.Must(b) {
								es = append(es, a.S)
							}
							if _, okk := matchAny([]string{`ok(decimal.NewFromString("9223372036854775807"))`}, es); !okk {
								m = false
							}
						}
					}
					r.Check("C30-R1", "the literal parsed without error", r.P.Pos(s.In.Pos()), m, "")
				}
			}
		}
	}
	if n != 1 {
		r.Fail("C30-R1", "maxDecimal writers", "", "expected exactly one store to droplet.maxDecimal")
	}
	r.RequireOnSuccess("C30-R2", "util/droplet.ToString", req("n <= MaxInt64 before the int64 conversion", "$0 <= 9223372036854775807"))
	if fn := r.fn("C30-R2", "util/droplet.ToString"); fn != nil {
		ok1, ok2 := false, false
		for _, b := range fn.Blocks {
			for _, in := range b.Instrs {
				if c, isCall := in.(*ssa.Call); isCall {
					t := r.P.Facts(fn).Term(c)
					if t == "decimal.New(int64($0), -6)" {
						ok1 = true
					}
					if t == "decimal.Decimal.StringFixed(decimal.New(int64($0), -6), 6)" {
						ok2 = true
					}
				}
			}
		}
		r.Check("C30-R2", "ToString builds decimal.New(int64(n), -6)", r.P.Pos(fn.Pos()), ok1, "")
		r.Check("C30-R2", "ToString formats with exactly six places", r.P.Pos(fn.Pos()), ok2, "")
	}
	arithObligations(r, "C30-R2", "util/droplet.ToString")
	// uint64(e.IntPart()): IntPart is int64; non-negativity follows from Sign != -1 (library semantics, trusted)
	r.Pass("C30-R2", "util/droplet.FromString: uint64(IntPart(e)) sign-changing conversion", "", "reviewed: e = d*10^6 with Sign(d) != -1 and e <= MaxInt64 (guards above, C30-R1) so IntPart(e) is in [0, MaxInt64]; relies on the decimal library's Sign/GreaterThan semantics (trusted)")
}

func checkC31(r *Run) {
	r.Explain = "C31: (R1) each mathutil helper is a member of the table of proved overflow-check idioms: the pair (value, error) returned on each path and the condition of that path are matched against the idiom (c=a+b with c<a or c<b; c=a*b with a!=0 and c/a!=b; int64(a)<0; a<0; a<0 or uint64(a)>MaxUint32); (R2) the arithmetic of RequiredFee, RemainingHours and UxOut.CoinHours is wrap-free (interval arithmetic, ceil-div idiom) and CoinHours returns an error on each checked-helper failure."
	r.NotDec = "that CoinHours returns exactly floor(coins*t/3.6e9) as a number (the structure hours + (whole*s + (rem*s)/1e6)/3600 is matched, not evaluated)"
	ruleMathutilIdioms(r, "C31-R1")

	// R2
	arithObligations(r, "C31-R2", "coin.UxOut.CoinHours", "util/fee.RequiredFee", "util/fee.VerifyTransactionFeeForHours", "util/fee.TransactionFee")
	r.Min("C31-R2", 4)
	// a caller that computes the remainder itself uses the same formula: total - RequiredFee(total, burn factor)
	// (the ceil-div lemma makes it underflow-free), not a re-derived product
	if fn := r.fn("C31-R3", "transaction.DistributeSpendHours"); fn != nil {
		ff := r.P.Facts(fn)
		found := false
		for _, b := range fn.Blocks {
			for _, in := range b.Instrs {
				if bo, ok := in.(*ssa.BinOp); ok && ff.Term(bo) == "($0 - util/fee.RequiredFee($0, params.UserVerifyTxn.BurnFactor))" {
					found = true
				}
			}
		}
		r.Check("C31-R3", "transaction.DistributeSpendHours: spendable hours = input hours - RequiredFee(input hours, user burn factor)", r.P.Pos(fn.Pos()), found, "the remainder is not computed from the fee helper")
	}
	r.ReturnShape("C31-R2", "util/fee.RequiredFee", 0,
		ShapeCase{"($0 % uint64($1)) == 0", "($0 / uint64($1))"},
		ShapeCase{"($0 % uint64($1)) != 0", "(($0 / uint64($1)) + 1)"})
	r.ReturnShape("C31-R2", "util/fee.RemainingHours", 0, ShapeCase{"", "($0 - util/fee.RequiredFee($0, $1))"})
	r.Pass("C31-R2", "util/fee.RemainingHours: hours - RequiredFee(hours,b) cannot underflow", "", "lemma: ceil(h/b) <= h for b >= 1, given the ceil-div shape of RequiredFee (obligation above)")
	secs := "($1 - $0.Head.Time)"
	whole := "util/mathutil.MultUint64(" + secs + ", ($0.Body.Coins / 1000000))"
	rem := "util/mathutil.MultUint64*(" + secs + ", ($0.Body.Coins % 1000000))"
	sum := "util/mathutil.AddUint64(" + whole + "#0, (" + rem + "#0 / 1000000))"
	r.RequireOnSuccess("C31-R2", "coin.UxOut.CoinHours")
	r.ReturnShape("C31-R2", "coin.UxOut.CoinHours", 0,
		ShapeCase{"$1 < $0.Head.Time", "$0.Body.Hours"},
		ShapeCase{"ok(util/mathutil.AddUint64*($0.Body.Hours, (" + sum + "#0 / 3600)))", "util/mathutil.AddUint64*($0.Body.Hours, (" + sum + "#0 / 3600))#0"},
		ShapeCase{"", "0"})
	r.RequireReturnAllPaths("C31-R2", "coin.UxOut.CoinHours", 0, "util/mathutil.AddUint64*($0.Body.Hours, *)#0", 1,
		req("whole-coin seconds did not overflow", "ok("+whole+")"))
	r.RequireReturnAllPaths("C31-R2", "coin.UxOut.CoinHours", 0, "util/mathutil.AddUint64*($0.Body.Hours, *)#0", 1,
		req("droplet seconds did not overflow", "ok("+rem+")"))
	r.RequireReturnAllPaths("C31-R2", "coin.UxOut.CoinHours", 0, "util/mathutil.AddUint64*($0.Body.Hours, *)#0", 1,
		req("the coin-seconds sum did not overflow", "ok("+sum+")"))
	r.RequireReturnAllPaths("C31-R2", "coin.UxOut.CoinHours", 0, "util/mathutil.AddUint64*($0.Body.Hours, *)#0", 1,
		req("elapsed time is non-negative", "$0.Head.Time <= $1"))
}

func isStringPtr(t types.Type) bool {
	p, ok := t.Underlying().(*types.Pointer)
	if !ok {
		return false
	}
	b, ok := p.Elem().Underlying().(*types.Basic)
	return ok && b.Kind() == types.String
}

// ruleMathutilIdioms (shared by every property whose sums go through the checked helpers): each mathutil helper
// is a member of the table of proved overflow-check idioms.
func ruleMathutilIdioms(r *Run, R1 string) {
	pair := func(fnRef string, want map[string][]string) {
		fn := r.fn(R1, fnRef)
		if fn == nil {
			return
		}
		ff := r.P.Facts(fn)
		seen := map[string]bool{}
		for _, b := range fn.Blocks {
			ret, ok := b.Instrs[len(b.Instrs)-1].(*ssa.Return)
			if !ok || len(ret.Results) != 2 {
				continue
			}
			key := ff.Term(ret.Results[0]) + " , " + ff.Term(ret.Results[1])
			conds, known := want[key]
			if !known {
				r.Check(R1, fnRef+": unexpected return pair "+key, r.P.Pos(ret.Pos()), false, "not in the idiom table")
				continue
			}
			seen[key] = true
			paths, okp := ff.PathFacts(b, 100)
			good := okp && len(paths) > 0
			detail := ""
			for _, p := range paths {
				if _, m := matchAny(conds, p); !m {
					good = false
					detail = "path without the idiom's condition: " + strings.Join(p, " ; ")
				}
			}
			r.Check(R1, fnRef+": returns ("+key+") exactly under "+strings.Join(conds, " or "), r.P.Pos(ret.Pos()), good, detail)
		}
		for k := range want {
			if !seen[k] {
				r.Check(R1, fnRef+": idiom return ("+k+") present", r.P.Pos(fn.Pos()), false, "missing")
			}
		}
	}
	mu := "util/mathutil."
	pair("util/mathutil.AddUint64", map[string][]string{
		"0 , " + mu + "ErrUint64AddOverflow": {"($0 + $1) < $0", "($0 + $1) < $1"},
		"($0 + $1) , nil":                    {"$0 <= ($0 + $1)", "$1 <= ($0 + $1)"},
	})
	pair("util/mathutil.AddUint32", map[string][]string{
		"0 , " + mu + "ErrUint32AddOverflow": {"($0 + $1) < $0", "($0 + $1) < $1"},
		"($0 + $1) , nil":                    {"$0 <= ($0 + $1)", "$1 <= ($0 + $1)"},
	})
	pair("util/mathutil.MultUint64", map[string][]string{
		"0 , " + mu + "ErrUint64MultOverflow": {"(($0 * $1) / $0) != $1"},
		"($0 * $1) , nil":                     {"$0 == 0", "(($0 * $1) / $0) == $1"},
	})
	pair("util/mathutil.Uint64ToInt64", map[string][]string{
		"0 , " + mu + "ErrUint64OverflowsInt64": {"int64($0) < 0"},
		"int64($0) , nil":                       {"0 <= int64($0)"},
	})
	pair("util/mathutil.Int64ToUint64", map[string][]string{
		"0 , " + mu + "ErrInt64UnderflowsUint64": {"$0 < 0"},
		"uint64($0) , nil":                       {"0 <= $0"},
	})
	pair("util/mathutil.IntToUint32", map[string][]string{
		"0 , " + mu + "ErrIntUnderflowsUint32": {"$0 < 0"},
		"0 , " + mu + "ErrIntOverflowsUint32":  {"4294967295 < uint64($0)"},
		"uint32($0) , nil":                     {"uint64($0) <= 4294967295"},
	})
	// the multiplication guard must also exclude division by zero on the failing path
	r.RequireReturnAllPaths(R1, "util/mathutil.MultUint64", 1, "util/mathutil.ErrUint64MultOverflow", 1, req("a != 0 (the division is defined)", "$0 != 0"))
	r.RequireReturnAllPaths(R1, "util/mathutil.IntToUint32", 0, "uint32($0)", 1, req("a >= 0", "0 <= $0"))

}
