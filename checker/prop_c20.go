package main

import (
	"fmt"
	"strings"

	"golang.org/x/tools/go/ssa"
)

func init() { props["C20"] = checkC20 }

// truncating / replacing file primitives and the index of their path argument(s)
var fileMutators = map[string][]int{
	"ioutil.WriteFile": {0}, "os.WriteFile": {0}, "os.Create": {0}, "os.OpenFile": {0}, "os.Remove": {0}, "os.RemoveAll": {0}, "os.Truncate": {0}, "os.Rename": {0, 1},
}

func checkC20(r *Run) {
	r.Explain = "(R4) leftovers of an interrupted save are never loaded: the wallet loader reads only regular files whose name ends with the wallet extension and the temporary file of SaveBinary is named target+\".tmp.\"+hash; C20: (R1) wallet files, key-value storage files and the peer list are written only through file.SaveBinary (directly or via SaveJSON); every other truncating/replacing file primitive in the node packages is enumerated in a reviewed table (database backup copy, TLS cert generation, profiling, log append, …); (R2) SaveBinary replaces the target atomically: success implies the full content was written, synced and closed to a temporary sibling path and then renamed over the target; the target path itself is never opened for writing, truncated, removed or renamed away; writeFileSync propagates Write/short-write/Sync/Close errors and always closes; IsWritable does not truncate; (R3) loaders treat an unreadable file as an error (no silent data loss)."
	r.NotDec = "directory fsync / power-loss durability beyond the ordered-write crash model; behaviour of rename on non-POSIX file systems"
	// R1: enumerate mutator call sites
	reviewed := map[string]string{
		"util/file.writeFileSync|os.OpenFile":       "the temporary sibling written by SaveBinary",
		"util/file.SaveBinary|os.Rename":            "atomic replace of the target by the fully written temporary",
		"util/file.removeTmpFile|os.Remove":         "removes only the temporary on failure",
		"util/file.SaveJSONSafe|os.OpenFile":        "O_EXCL create: never touches an existing file",
		"util/file.IsWritable|os.OpenFile":          "probe without O_TRUNC (checked below)",
		"util/file.IsWritable|os.Remove":            "removes the probe file only if it did not exist before (checked below)",
		"util/file.CopyFile|os.Create":              "destination of an explicit copy (db backup), never a live wallet/kv file",
		"util/file.copyFile|os.Create":              "destination of an explicit copy (db backup), never a live wallet/kv file",
		"visor.moveCorruptDB|os.Rename":             "moves a database already classified corrupt aside",
		"visor.backupDB|os.Create":                  "writes a new backup file path",
		"visor.copyCorruptDB|os.Create":             "writes a new corrupt-db copy path",
		"skycoin.createCertFiles|ioutil.WriteFile":  "generates new TLS cert/key files at start-up",
		"skycoin.Coin.Run|os.Create":                "CPU profile output file",
		"skycoin.Coin.initLogFile|os.OpenFile":      "log file opened with O_APPEND",
		"skycoin.Coin.Run$1|os.Create":              "profile output",
		"kvstorage.Manager.RemoveStorage|os.Remove": "explicit removal of a storage requested through the API",
		"kvstorage.newKVStorage|os.Rename":          "moves an unreadable storage file aside before re-initialising it",
		"wallet.backupWltFile|os.Rename":            "legacy backup of an old-format wallet file",
		"daemon/pex.Pex.loadCache|os.Remove":        "removes the obsolete peers.txt cache",
		"skycoin.createCertFiles|os.Remove":         "removes the just-created cert when writing the key failed",
		"util/file.Copy|os.Create":                  "destination of an explicit copy (db backup), never a live wallet/kv file",
		"util/file.SaveJSONSafe|os.Remove":          "removes the file it just created with O_EXCL when the write failed",
		"wallet.removeBackupFiles|os.Remove":        "removes legacy .wlt.bak files of version 0.1 wallets whose .wlt exists and loads",
	}
	n := 0
	for _, fn := range r.P.ModFns {
		name := FnName(fn)
		if strings.HasPrefix(name, "cli.") || strings.HasPrefix(name, "cmd/") || strings.HasPrefix(name, "cipher/secp256k1-go/secp256k1-go2.") || strings.HasPrefix(name, "cipher/encoder/internal") || strings.HasPrefix(name, "testutil.") || strings.HasPrefix(name, "api/integration") {
			continue
		}
		for _, b := range fn.Blocks {
			for _, in := range b.Instrs {
				c, ok := in.(*ssa.Call)
				if !ok {
					continue
				}
				cal := calleeName(&c.Call)
				if _, ok := fileMutators[cal]; !ok {
					continue
				}
				n++
				root := name
				if i := strings.Index(root, "$"); i > 0 && reviewed[root+"|"+cal] == "" {
					root = root[:i]
				}
				why, ok := reviewed[root+"|"+cal]
				if !ok {
					why, ok = reviewed[name+"|"+cal]
				}
				if !ok {
					// a single-use helper belongs to its caller (extract-function refactor)
					if owner, _ := r.P.attribute(fn, b); owner != fn {
						why, ok = reviewed[FnName(owner)+"|"+cal]
					}
				}
				r.Check("C20-R1", name+" uses "+cal, r.P.Pos(c.Pos()), ok, "truncating/replacing file primitive outside file.SaveBinary: not in the reviewed table ("+why+")")
			}
		}
	}
	r.Units["file-mutating call sites"] = n
	r.Min("C20-R1", 8)
	r.checkCallers("C20-R1", "util/file.SaveBinary", "util/file.SaveJSON", "wallet.Save")
	r.RequireOnSuccess("C20-R1", "wallet.Save", req("persistent wallets are written with SaveBinary under the wallet directory", "ok(util/file.SaveBinary(filepath.Join([$1, iface:wallet.Wallet.Filename($0)]), iface:wallet.Wallet.Serialize($0)#0, 384))", "iface:wallet.Wallet.IsTemp($0)"))
	r.RequireOnSuccess("C20-R1", "kvstorage.kvStorage.flush", req("kv storage flushed with SaveJSON", "ok(util/file.SaveJSON($0.fn, $0.data, 384))"))
	r.RequireOnSuccess("C20-R1", "util/file.SaveJSON", req("SaveJSON = SaveBinary of the marshalled value", "ok(util/file.SaveBinary($0, json.MarshalIndent($1, *)#0, $2))"))
	// R2
	tmp := `(($0 + ".tmp.") + *)`
	r.RequireOnSuccess("C20-R2", "util/file.SaveBinary",
		req("full content written and synced to a temporary sibling", "ok(util/file.writeFileSync("+tmp+", $1, $2))"),
		req("temporary renamed over the target", "ok(os.Rename("+tmp+", $0))"))
	for _, f := range []string{"util/file.SaveBinary", "util/file.writeFileSync", "util/file.removeTmpFile"} {
		fn := r.fn("C20-R2", f)
		if fn == nil {
			continue
		}
		ff := r.P.Facts(fn)
		bad := ""
		for _, b := range fn.Blocks {
			for _, in := range b.Instrs {
				c, ok := in.(*ssa.Call)
				if !ok {
					continue
				}
				cal := calleeName(&c.Call)
				idxs, ok := fileMutators[cal]
				if !ok || f != "util/file.SaveBinary" {
					continue
				}
				for _, k := range idxs {
					if cal == "os.Rename" && k == 1 {
						continue // destination of the final rename IS the target
					}
					if k < len(c.Call.Args) && ff.Term(c.Call.Args[k]) == "$0" {
						bad = cal + "(" + ff.Term(c.Call.Args[k]) + ") at " + r.P.Pos(c.Pos())
					}
				}
			}
		}
		if f == "util/file.SaveBinary" {
			r.Check("C20-R2", "util/file.SaveBinary: target rewritten in place", r.P.Pos(fn.Pos()), bad == "", "the target path itself is opened for writing / truncated / removed / renamed away: "+bad+" — a crash at that point leaves neither the old nor the new content under the name the loaders read")
		}
	}
	if fn := r.fn("C20-R2", "util/file.writeFileSync"); fn != nil {
		ff := r.P.Facts(fn)
		sites := r.CallSites(fn, "os.OpenFile")
		ok := len(sites) == 1 && r.argTerm(sites[0], 0) == "$0" && r.argTerm(sites[0], 1) == "577"
		r.Check("C20-R2", "writeFileSync opens its own path parameter write-only, create, truncate", r.P.Pos(fn.Pos()), ok, "")
		ret := ""
		for _, b := range fn.Blocks {
			if rt, ok := b.Instrs[len(b.Instrs)-1].(*ssa.Return); ok && b != fn.Recover {
				ret += ff.Term(rt.Results[0]) + " "
			}
		}
		for _, want := range []string{"os.File.Write(", "io.ErrShortWrite", "os.File.Sync(", "os.File.Close("} {
			r.Check("C20-R2", "writeFileSync: the result carries the error of "+want+")", r.P.Pos(fn.Pos()), strings.Contains(ret, want), trunc(ret, 300))
		}
		r.RequireFollows("C20-R2", "util/file.writeFileSync", "os.OpenFile", "os.File.Close", "", "the file is closed on every path after a successful open")
		r.RequireAtCall("C20-R2", "util/file.writeFileSync", "os.File.Sync", 1, req("synced only after a complete write", "* == nil"))
	}
	if fn := r.fn("C20-R2", "util/file.IsWritable"); fn != nil {
		for _, cs := range r.CallSites(fn, "os.OpenFile") {
			flag := r.argTerm(cs, 1)
			var v int
			fmt.Sscanf(flag, "%d", &v)
			r.Check("C20-R2", "util/file.IsWritable: truncating open", r.P.Pos(cs.Pos()), v&0x200 == 0 && v != 0, "flags="+flag+" include O_TRUNC: probing a wallet file empties it before the save")
		}
	}
	// R3 loaders
	r.RequireOnSuccess("C20-R3", "wallet.Load", req("a wallet file that cannot be read/parsed is an error", "ok(*)"))
	// R4: what a crash can leave behind (SaveBinary's temporary file, backups) is never taken for a wallet at
	// start-up: the loader reads only regular files whose name ENDS with the wallet extension, and the temporary
	// name is the target name plus a non-empty suffix
	const NAME = "iface:fs.FileInfo.Name(ioutil.ReadDir($0.config.WalletDir)#0[i])"
	r.RequireAtCall("C20-R4", "wallet.Service.loadWallets", "wallet.Service.Load", 1,
		req("only names ending in the wallet extension are loaded", `strings.HasSuffix(`+NAME+`, "wlt")`),
		req("only regular files are loaded", "fs.FileMode.IsRegular(iface:fs.FileInfo.Mode(ioutil.ReadDir($0.config.WalletDir)#0[i]))"))
	if fn := r.fn("C20-R4", "wallet.Service.loadWallets"); fn != nil {
		ff := r.P.Facts(fn)
		for _, cs := range r.CallSites(fn, "wallet.Service.Load") {
			t := ff.Term(cs.Common().Args[1])
			r.Check("C20-R4", "wallet.Service.loadWallets: the file loaded is the directory entry that passed the name test", r.P.Pos(cs.Pos()), t == "filepath.Join([$0.config.WalletDir, "+NAME+"])", t)
		}
	}
	if fn := r.fn("C20-R4", "util/file.SaveBinary"); fn != nil {
		ff := r.P.Facts(fn)
		n := 0
		for _, cs := range r.CallSites(fn, "util/file.writeFileSync") {
			n++
			t := ff.Term(cs.Common().Args[0])
			r.Check("C20-R4", "util/file.SaveBinary: the temporary file is named <target> + \".tmp.\" + <hash prefix> (never ends with the target's extension)", r.P.Pos(cs.Pos()), glob(`(($0 + ".tmp.") + *[:8])`, t), t)
		}
		r.Check("C20-R4", "util/file.SaveBinary: temporary-file write sites", "", n == 1, "")
	}
}
