package main

import (
	"fmt"
	"go/ast"
	"go/token"
	"go/types"
	"os"
	"sort"
	"strings"
	"time"

	"golang.org/x/tools/go/callgraph"
	"golang.org/x/tools/go/callgraph/cha"
	"golang.org/x/tools/go/callgraph/vta"
	"golang.org/x/tools/go/packages"
	"golang.org/x/tools/go/ssa"
	"golang.org/x/tools/go/ssa/ssautil"
)

const modPath = "github.com/skycoin/skycoin"
const srcPrefix = modPath + "/src/"

// Program is the loaded, type-checked, SSA-built skycoin module (engine E1/E2).
type Program struct {
	RepoDir string
	Fset    *token.FileSet
	Pkgs    []*packages.Package          // root packages (module packages under src/ and cmd/)
	ByPath  map[string]*packages.Package // all packages, incl. deps
	SSA     *ssa.Program
	ModFns  []*ssa.Function // every function (incl. anonymous) whose package is in the module
	cha     *callgraph.Graph
	vta     *callgraph.Graph
	LoadS   float64
	NFiles  int

	facts   map[*ssa.Function]*FuncFacts
	getters map[*ssa.Function]getterInfo

	fieldInv      map[*types.Var]bool
	fieldInvCache map[*types.Var]Interval
	fieldInvBusy  map[*types.Var]bool
	paramFrom     map[*ssa.Function]bool
	paramCache    map[*ssa.Parameter]Interval
	retBusy       map[*ssa.Function]bool
	nilnil        map[*ssa.Function]int
	nilnilBusy    map[*ssa.Function]bool
}

func repoDir() string {
	if d := os.Getenv("VERIF_REPO"); d != "" {
		return d
	}
	return "/repo"
}

// Load loads ./src/... and ./cmd/... of the repository.  overlay maps absolute file
// names to replacement contents (used by the witness self-test; nothing is written
// to disk).  Any type error in a module package is fatal (exit 2: no verdict).
func Load(overlay map[string][]byte, env []string) (*Program, error) {
	t0 := time.Now()
	dir := repoDir()
	cfg := &packages.Config{
		Mode:    packages.LoadAllSyntax,
		Dir:     dir,
		Tests:   false,
		Overlay: overlay,
		Env: append(append(os.Environ(),
			"GOFLAGS=-mod=mod", "GOPROXY=off", "GOSUMDB=off", "GOTOOLCHAIN=local", "GOWORK=off"), env...),
	}
	pkgs, err := packages.Load(cfg, "./src/...", "./cmd/...")
	if err != nil {
		return nil, fmt.Errorf("packages.Load: %v", err)
	}
	if len(pkgs) == 0 {
		return nil, fmt.Errorf("no packages loaded from %s", dir)
	}
	p := &Program{RepoDir: dir, ByPath: map[string]*packages.Package{}, facts: map[*ssa.Function]*FuncFacts{}, getters: map[*ssa.Function]getterInfo{}}
	var errs []string
	packages.Visit(pkgs, nil, func(pk *packages.Package) {
		p.ByPath[pk.PkgPath] = pk
		if strings.HasPrefix(pk.PkgPath, modPath) {
			for _, e := range pk.Errors {
				errs = append(errs, e.Error())
			}
		}
	})
	if len(errs) > 0 {
		sort.Strings(errs)
		if len(errs) > 10 {
			errs = errs[:10]
		}
		return nil, fmt.Errorf("module does not type-check:\n  %s", strings.Join(errs, "\n  "))
	}
	for _, pk := range pkgs {
		if strings.HasPrefix(pk.PkgPath, modPath) {
			p.Pkgs = append(p.Pkgs, pk)
			p.NFiles += len(pk.Syntax)
		}
	}
	if len(p.Pkgs) < 40 {
		return nil, fmt.Errorf("only %d module packages loaded (expected >= 40)", len(p.Pkgs))
	}
	p.Fset = pkgs[0].Fset
	prog, _ := ssautil.AllPackages(pkgs, ssa.InstantiateGenerics)
	prog.Build()
	p.SSA = prog
	for fn := range ssautil.AllFunctions(prog) {
		if fn.Pkg != nil && strings.HasPrefix(fn.Pkg.Pkg.Path(), modPath) && fn.Blocks != nil {
			p.ModFns = append(p.ModFns, fn)
		} else if fn.Pkg == nil && fn.Parent() != nil {
			// anonymous function: attribute to its root parent
			r := fn
			for r.Parent() != nil {
				r = r.Parent()
			}
			if r.Pkg != nil && strings.HasPrefix(r.Pkg.Pkg.Path(), modPath) && fn.Blocks != nil {
				p.ModFns = append(p.ModFns, fn)
			}
		}
	}
	sort.Slice(p.ModFns, func(i, j int) bool { return fnLess(p.ModFns[i], p.ModFns[j]) })
	p.LoadS = time.Since(t0).Seconds()
	return p, nil
}

func fnLess(a, b *ssa.Function) bool {
	if a.String() != b.String() {
		return a.String() < b.String()
	}
	return a.Pos() < b.Pos()
}

// CHA returns the class-hierarchy call graph (over-approximation; used for
// "nobody else calls X" rules).
func (p *Program) CHA() *callgraph.Graph {
	if p.cha == nil {
		p.cha = cha.CallGraph(p.SSA)
	}
	return p.cha
}

// VTA returns the variable-type-analysis call graph refined from CHA.
func (p *Program) VTA() *callgraph.Graph {
	if p.vta == nil {
		p.vta = vta.CallGraph(ssautil.AllFunctions(p.SSA), p.CHA())
	}
	return p.vta
}

// pkgPath expands a short package name ("coin", "visor/blockdb") to its import path.
func pkgPath(short string) string {
	if strings.Contains(short, ".") || !strings.Contains(short, "/") && stdPkgs[short] {
		return short
	}
	if strings.HasPrefix(short, "cmd/") {
		return modPath + "/" + short
	}
	return srcPrefix + short
}

var stdPkgs = map[string]bool{"os": true, "bytes": true, "errors": true, "fmt": true, "time": true, "sync": true, "sort": true, "strings": true, "strconv": true, "math": true}

// Pkg returns the types.Package for a short name, or nil.
func (p *Program) Pkg(short string) *types.Package {
	if pk := p.ByPath[pkgPath(short)]; pk != nil {
		return pk.Types
	}
	return nil
}

// Fn resolves a package-level function "pkg.Name" or a method "pkg.Type.Name" through
// the type checker.  Returns nil when the anchor no longer resolves.
func (p *Program) Fn(ref string) *ssa.Function {
	i := strings.Index(ref, ":")
	closureIdx := ""
	if i >= 0 {
		closureIdx = ref[i+1:]
		ref = ref[:i]
	}
	// split package part: the package short path may contain '/', names contain '.'
	slash := strings.LastIndex(ref, "/")
	rest := ref
	pkgShort := ""
	if slash >= 0 {
		dot := strings.Index(ref[slash:], ".")
		if dot < 0 {
			return nil
		}
		pkgShort = ref[:slash+dot]
		rest = ref[slash+dot+1:]
	} else {
		dot := strings.Index(ref, ".")
		if dot < 0 {
			return nil
		}
		pkgShort = ref[:dot]
		rest = ref[dot+1:]
	}
	tp := p.Pkg(pkgShort)
	if tp == nil {
		return nil
	}
	parts := strings.Split(rest, ".")
	var fn *ssa.Function
	switch len(parts) {
	case 1:
		if strings.HasPrefix(parts[0], "init#") {
			// source-level init functions are package members "init#1", "init#2", …
			if sp := p.SSA.Package(tp); sp != nil {
				if f, ok := sp.Members[parts[0]].(*ssa.Function); ok {
					return f
				}
			}
			return nil
		}
		obj, _ := tp.Scope().Lookup(parts[0]).(*types.Func)
		if obj == nil {
			return nil
		}
		fn = p.SSA.FuncValue(obj)
	case 2:
		tn, _ := tp.Scope().Lookup(parts[0]).(*types.TypeName)
		if tn == nil {
			return nil
		}
		obj, _, _ := types.LookupFieldOrMethod(types.NewPointer(tn.Type()), true, tp, parts[1])
		f, _ := obj.(*types.Func)
		if f == nil {
			return nil
		}
		fn = p.SSA.FuncValue(f)
	default:
		return nil
	}
	if fn == nil || closureIdx == "" {
		return fn
	}
	// "pkg.F:1" = first anonymous function declared in F (source order)
	var n int
	fmt.Sscanf(closureIdx, "%d", &n)
	if n < 1 || n > len(fn.AnonFuncs) {
		return nil
	}
	return fn.AnonFuncs[n-1]
}

// Global resolves a package-level variable.
func (p *Program) GlobalVar(ref string) *types.Var {
	dot := strings.LastIndex(ref, ".")
	if dot < 0 {
		return nil
	}
	tp := p.Pkg(ref[:dot])
	if tp == nil {
		return nil
	}
	v, _ := tp.Scope().Lookup(ref[dot+1:]).(*types.Var)
	return v
}

// Field resolves "pkg.Type.Field" to its *types.Var.
func (p *Program) Field(ref string) *types.Var {
	parts := strings.Split(ref, ".")
	if len(parts) < 3 {
		return nil
	}
	tp := p.Pkg(strings.Join(parts[:len(parts)-2], "."))
	if tp == nil {
		return nil
	}
	tn, _ := tp.Scope().Lookup(parts[len(parts)-2]).(*types.TypeName)
	if tn == nil {
		return nil
	}
	obj, _, _ := types.LookupFieldOrMethod(tn.Type(), true, tp, parts[len(parts)-1])
	v, _ := obj.(*types.Var)
	return v
}

func (p *Program) Pos(pos token.Pos) string {
	if !pos.IsValid() {
		return "-"
	}
	ps := p.Fset.Position(pos)
	f := ps.Filename
	if strings.HasPrefix(f, p.RepoDir+"/") {
		f = f[len(p.RepoDir)+1:]
	}
	return fmt.Sprintf("%s:%d", f, ps.Line)
}

// shortPkg shortens an import path for display: module packages lose the module
// prefix, others keep their last element.
func shortPkg(path string) string {
	if strings.HasPrefix(path, srcPrefix) {
		return path[len(srcPrefix):]
	}
	if strings.HasPrefix(path, modPath+"/") {
		return path[len(modPath)+1:]
	}
	if i := strings.LastIndex(path, "/"); i >= 0 {
		return path[i+1:]
	}
	return path
}

// FnName renders a function for reports: "visor.Blockchain.ExecuteBlock",
// closures as "visor.Visor.ExecuteSignedBlock$1".
func FnName(fn *ssa.Function) string {
	if fn == nil {
		return "<nil>"
	}
	if fn.Parent() != nil {
		return FnName(fn.Parent()) + strings.TrimPrefix(fn.Name(), fn.Parent().Name())
	}
	pk := ""
	if fn.Pkg != nil {
		pk = shortPkg(fn.Pkg.Pkg.Path())
	} else if fn.Object() != nil && fn.Object().Pkg() != nil {
		pk = shortPkg(fn.Object().Pkg().Path())
	}
	if recv := fn.Signature.Recv(); recv != nil {
		t := recv.Type()
		if pt, ok := t.(*types.Pointer); ok {
			t = pt.Elem()
		}
		if nt, ok := t.(*types.Named); ok {
			if nt.Obj().Pkg() != nil {
				pk = shortPkg(nt.Obj().Pkg().Path())
			}
			return pk + "." + nt.Obj().Name() + "." + fn.Name()
		}
	}
	return pk + "." + fn.Name()
}

// InModule reports whether fn (or its root parent) is declared in the module.
func InModule(fn *ssa.Function) bool {
	for fn.Parent() != nil {
		fn = fn.Parent()
	}
	if fn.Pkg != nil {
		return strings.HasPrefix(fn.Pkg.Pkg.Path(), modPath)
	}
	if o := fn.Object(); o != nil && o.Pkg() != nil {
		return strings.HasPrefix(o.Pkg().Path(), modPath)
	}
	return false
}

// FileOf returns the syntax file containing pos among module packages.
func (p *Program) FileOf(pos token.Pos) (*ast.File, *packages.Package) {
	for _, pk := range p.Pkgs {
		for _, f := range pk.Syntax {
			if f.Pos() <= pos && pos <= f.End() {
				return f, pk
			}
		}
	}
	return nil, nil
}
