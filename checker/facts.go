package main

import (
	"fmt"
	"go/constant"
	"go/token"
	"go/types"
	"regexp"
	"sort"
	"strings"

	"golang.org/x/tools/go/ssa"
)

// Guard facts (engine E3).

type Loop struct {
	Header  *ssa.BasicBlock
	Blocks  map[*ssa.BasicBlock]bool
	Latches []*ssa.BasicBlock
	Parent  *Loop
	Depth   int
}

type FuncFacts struct {
	P  *Program
	Fn *ssa.Function

	loops      []*Loop
	headerLoop map[*ssa.BasicBlock]*Loop
	innermost  map[*ssa.BasicBlock]*Loop

	inductionPhi   map[*ssa.Phi]string   // φ rendered as i/j/k
	inductionAlias map[*ssa.BinOp]string // (φ+1) of a range loop rendered as i/j/k
	terms          map[ssa.Value]string

	reachCache map[[2]*ssa.BasicBlock]map[*ssa.BasicBlock]bool
	mustCache  map[*ssa.BasicBlock][]Atom
	whole      *Loop
	callOrd    map[*ssa.Call]int
	callGroups map[string][]*ssa.Call
	inOrdinal  map[*ssa.Call]bool
	idiomBound map[*ssa.BinOp]Interval
	noRet      map[*ssa.BasicBlock]bool
}

// Atom is one condition that holds at a program point.
type Atom struct {
	S      string    // normalised text; quantified atoms start with "forall: "
	Pos    token.Pos // position of the deciding branch
	Forall bool
}

func (p *Program) Facts(fn *ssa.Function) *FuncFacts {
	if ff, ok := p.facts[fn]; ok {
		return ff
	}
	ff := &FuncFacts{P: p, Fn: fn, headerLoop: map[*ssa.BasicBlock]*Loop{}, innermost: map[*ssa.BasicBlock]*Loop{},
		inductionPhi: map[*ssa.Phi]string{}, inductionAlias: map[*ssa.BinOp]string{}, terms: map[ssa.Value]string{},
		reachCache: map[[2]*ssa.BasicBlock]map[*ssa.BasicBlock]bool{}, mustCache: map[*ssa.BasicBlock][]Atom{}, idiomBound: map[*ssa.BinOp]Interval{}}
	ff.findLoops()
	ff.findInduction()
	p.facts[fn] = ff
	return ff
}

func (ff *FuncFacts) findLoops() {
	fn := ff.Fn
	for _, b := range fn.Blocks {
		for _, s := range b.Succs {
			if s.Dominates(b) { // back edge b -> s
				lp := ff.headerLoop[s]
				if lp == nil {
					lp = &Loop{Header: s, Blocks: map[*ssa.BasicBlock]bool{s: true}}
					ff.headerLoop[s] = lp
					ff.loops = append(ff.loops, lp)
				}
				lp.Latches = append(lp.Latches, b)
				// body: nodes that reach b without passing s
				stack := []*ssa.BasicBlock{b}
				for len(stack) > 0 {
					n := stack[len(stack)-1]
					stack = stack[:len(stack)-1]
					if lp.Blocks[n] {
						continue
					}
					lp.Blocks[n] = true
					stack = append(stack, n.Preds...)
				}
			}
		}
	}
	// nesting: parent = smallest strictly containing loop
	sort.Slice(ff.loops, func(i, j int) bool { return len(ff.loops[i].Blocks) < len(ff.loops[j].Blocks) })
	for i, l := range ff.loops {
		for _, m := range ff.loops[i+1:] {
			if m != l && m.Blocks[l.Header] && len(m.Blocks) > len(l.Blocks) {
				l.Parent = m
				break
			}
		}
	}
	for _, l := range ff.loops {
		d := 1
		for q := l.Parent; q != nil; q = q.Parent {
			d++
		}
		l.Depth = d
	}
	for _, b := range fn.Blocks {
		for _, l := range ff.loops { // smallest first
			if l.Blocks[b] {
				ff.innermost[b] = l
				break
			}
		}
	}
}

func loopVarName(depth int) string {
	switch depth {
	case 1:
		return "i"
	case 2:
		return "j"
	case 3:
		return "k"
	}
	return fmt.Sprintf("i%d", depth)
}

func (ff *FuncFacts) findInduction() {
	for _, lp := range ff.loops {
		for _, in := range lp.Header.Instrs {
			phi, ok := in.(*ssa.Phi)
			if !ok {
				break
			}
			var init ssa.Value
			var step *ssa.BinOp
			okShape := true
			for i, pred := range lp.Header.Preds {
				e := phi.Edges[i]
				if lp.Blocks[pred] {
					if e == phi {
						continue
					}
					b, ok := e.(*ssa.BinOp)
					if !ok || b.Op != token.ADD || b.X != phi || !isConstInt(b.Y, 1) {
						okShape = false
						break
					}
					if step != nil && step != b {
						okShape = false
						break
					}
					step = b
				} else {
					if init != nil && init != e {
						okShape = false
						break
					}
					init = e
				}
			}
			if !okShape || step == nil || init == nil {
				continue
			}
			// only the variable that controls the loop (appears in the header's
			// condition) is an induction variable; other counters are accumulators
			if iff := ifOf(lp.Header); iff != nil {
				if cb, ok := iff.Cond.(*ssa.BinOp); ok {
					if cb.X != ssa.Value(phi) && cb.X != ssa.Value(step) && cb.Y != ssa.Value(phi) && cb.Y != ssa.Value(step) {
						continue
					}
				} else {
					continue
				}
			} else {
				continue
			}
			name := loopVarName(lp.Depth)
			if isConstInt(init, -1) {
				// range loop: the body uses (φ+1)
				ff.inductionAlias[step] = name
				ff.inductionPhi[phi] = "(" + name + "-1)"
			} else {
				ff.inductionPhi[phi] = name
			}
		}
	}
}

func isConstInt(v ssa.Value, n int64) bool {
	c, ok := v.(*ssa.Const)
	if !ok || c.Value == nil || c.Value.Kind() != constant.Int {
		return false
	}
	x, exact := constant.Int64Val(c.Value)
	return exact && x == n
}

// reachFrom returns the set of blocks reachable from `from` (inclusive) without
// entering `avoid` (may be nil).
func (ff *FuncFacts) reachFrom(from, avoid *ssa.BasicBlock) map[*ssa.BasicBlock]bool {
	key := [2]*ssa.BasicBlock{from, avoid}
	if m, ok := ff.reachCache[key]; ok {
		return m
	}
	m := map[*ssa.BasicBlock]bool{}
	if from != avoid {
		stack := []*ssa.BasicBlock{from}
		for len(stack) > 0 {
			n := stack[len(stack)-1]
			stack = stack[:len(stack)-1]
			if m[n] || n == avoid {
				continue
			}
			m[n] = true
			if ff.noReturn(n) {
				continue // control does not continue past log.Panic / Fatal / os.Exit
			}
			stack = append(stack, n.Succs...)
		}
	}
	ff.reachCache[key] = m
	return m
}

func ifOf(b *ssa.BasicBlock) *ssa.If {
	if len(b.Instrs) == 0 {
		return nil
	}
	i, _ := b.Instrs[len(b.Instrs)-1].(*ssa.If)
	return i
}

// condAtoms renders a branch condition (with polarity) into atom strings.  More
// than one string is returned when the condition has several equivalent spellings.
func (ff *FuncFacts) condAtoms(c ssa.Value, pol bool) []string {
	switch c := c.(type) {
	case *ssa.UnOp:
		if c.Op == token.NOT {
			return ff.condAtoms(c.X, !pol)
		}
	case *ssa.BinOp:
		op := c.Op
		switch op {
		case token.EQL, token.NEQ, token.LSS, token.LEQ, token.GTR, token.GEQ:
			if !pol {
				op = negOp(op)
			}
			x, y := ff.Term(c.X), ff.Term(c.Y)
			var out []string
			switch op {
			case token.GTR:
				out = append(out, y+" < "+x)
			case token.GEQ:
				out = append(out, y+" <= "+x)
			case token.LSS:
				out = append(out, x+" < "+y)
			case token.LEQ:
				out = append(out, x+" <= "+y)
			case token.EQL, token.NEQ:
				out = append(out, x+" "+op.String()+" "+y, y+" "+op.String()+" "+x)
			}
			return out
		}
	}
	t := ff.Term(c)
	if _, isCall := c.(*ssa.Call); isCall {
		// a single-use helper rendered as its return expression: a comparison keeps its comparison form
		if x, op, y, ok := splitTopCmp(t); ok {
			if !pol {
				op = negOp(op)
			}
			switch op {
			case token.GTR:
				return []string{y + " < " + x}
			case token.GEQ:
				return []string{y + " <= " + x}
			case token.LSS:
				return []string{x + " < " + y}
			case token.LEQ:
				return []string{x + " <= " + y}
			case token.EQL, token.NEQ:
				return []string{x + " " + op.String() + " " + y, y + " " + op.String() + " " + x}
			}
		}
	}
	if pol {
		return []string{t}
	}
	return []string{"!" + t}
}

// splitTopCmp splits "(X op Y)" at its top-level comparison operator.
func splitTopCmp(t string) (x string, op token.Token, y string, ok bool) {
	if len(t) < 2 || t[0] != '(' || t[len(t)-1] != ')' {
		return
	}
	depth := 0
	for i := 0; i < len(t)-1; i++ {
		switch t[i] {
		case '(', '[', '{':
			depth++
		case ')', ']', '}':
			depth--
			if depth == 0 {
				return // the outer parentheses do not span the whole term
			}
		}
	}
	in := t[1 : len(t)-1]
	depth = 0
	for i := 0; i < len(in); i++ {
		switch in[i] {
		case '(', '[', '{':
			depth++
		case ')', ']', '}':
			depth--
		case ' ':
			if depth != 0 {
				continue
			}
			for _, c := range []struct {
				s  string
				op token.Token
			}{{" == ", token.EQL}, {" != ", token.NEQ}, {" <= ", token.LEQ}, {" >= ", token.GEQ}, {" < ", token.LSS}, {" > ", token.GTR}} {
				if strings.HasPrefix(in[i:], c.s) {
					return in[:i], c.op, in[i+len(c.s):], true
				}
			}
		}
	}
	return
}

func negOp(op token.Token) token.Token {
	switch op {
	case token.EQL:
		return token.NEQ
	case token.NEQ:
		return token.EQL
	case token.LSS:
		return token.GEQ
	case token.GEQ:
		return token.LSS
	case token.GTR:
		return token.LEQ
	case token.LEQ:
		return token.GTR
	}
	return op
}

func isNilConst(v ssa.Value) bool {
	c, ok := v.(*ssa.Const)
	return ok && c.Value == nil
}

var errorIface = types.Universe.Lookup("error").Type().Underlying().(*types.Interface)

// isErrorType: error, or a named interface type that embeds it
// (gnet.DisconnectReason).
func isErrorType(t types.Type) bool {
	if types.Identical(t, types.Universe.Lookup("error").Type()) {
		return true
	}
	if it, ok := t.Underlying().(*types.Interface); ok && it.NumMethods() > 0 {
		return types.Implements(t, errorIface)
	}
	return false
}

func (ff *FuncFacts) callTerm(v ssa.Value) string {
	switch v := v.(type) {
	case *ssa.Call:
		return ff.Term(v)
	case *ssa.Extract:
		if c, ok := v.Tuple.(*ssa.Call); ok {
			return ff.Term(c)
		}
	}
	return ""
}

// Must returns the atoms that hold whenever control reaches the start of block T.
func (ff *FuncFacts) Must(T *ssa.BasicBlock) []Atom {
	if a, ok := ff.mustCache[T]; ok {
		return a
	}
	var out []Atom
	seen := map[string]bool{}
	add := func(ss []string, pos token.Pos, forall bool) {
		for _, s := range ss {
			if !seen[s] {
				seen[s] = true
				out = append(out, Atom{S: s, Pos: pos, Forall: forall})
			}
		}
	}
	// (A) dominance atoms
	for B := T.Idom(); B != nil; B = B.Idom() {
		iff := ifOf(B)
		if iff == nil || B.Succs[0] == B.Succs[1] {
			continue
		}
		r0 := ff.reachFrom(B.Succs[0], B)[T]
		r1 := ff.reachFrom(B.Succs[1], B)[T]
		if r0 && !r1 {
			add(ff.condAtomsX(iff.Cond, true), ff.condPos(B), false)
		} else if r1 && !r0 {
			add(ff.condAtomsX(iff.Cond, false), ff.condPos(B), false)
		}
	}
	// (B) quantified atoms from loops that are completed before T
	for _, L := range ff.loops {
		if L.Blocks[T] || !L.Header.Dominates(T) {
			continue
		}
		partial := !ff.exitsOnlyFromHeader(L, T)
		for B := range L.Blocks {
			iff := ifOf(B)
			if iff == nil || B.Succs[0] == B.Succs[1] {
				continue
			}
			if B == L.Header {
				continue // the loop condition itself
			}
			r0 := ff.reachFrom(B.Succs[0], nil)[T]
			r1 := ff.reachFrom(B.Succs[1], nil)[T]
			if r0 == r1 {
				continue
			}
			guards, full := ff.iterGuards(B, L, T)
			prefix := "forall" + ff.rangeDesc(B, L) + ": "
			if partial || !full {
				prefix = "forall-partial" + ff.rangeDesc(B, L) + ": "
			}
			if len(guards) > 0 {
				prefix += strings.Join(guards, " && ") + " => "
			}
			for _, s := range ff.condAtomsX(iff.Cond, r0) {
				add([]string{prefix + s}, ff.condPos(B), true)
			}
		}
	}
	// (C) conditional atoms: a branch B that does not dominate T, at the same loop
	// level as T, one of whose edges cannot reach T: "whenever B is reached, c".
	for _, B := range ff.Fn.Blocks {
		iff := ifOf(B)
		if iff == nil || B.Succs[0] == B.Succs[1] || B == T || B.Dominates(T) {
			continue
		}
		if ff.innermost[B] != ff.innermost[T] {
			continue
		}
		if !ff.reachFrom(B, nil)[T] {
			continue
		}
		if lp := ff.innermost[B]; lp != nil && !ff.reachWithin(lp, B, T, nil) {
			continue // B comes after T in the iteration (only reachable round the back edge)
		}
		r0 := ff.reachFrom(B.Succs[0], nil)[T]
		r1 := ff.reachFrom(B.Succs[1], nil)[T]
		if lp := ff.innermost[B]; lp != nil {
			r0 = ff.reachWithin(lp, B.Succs[0], T, nil) && B.Succs[0] != lp.Header
			r1 = ff.reachWithin(lp, B.Succs[1], T, nil) && B.Succs[1] != lp.Header
		}
		if r0 == r1 {
			continue
		}
		guards, full := ff.guardsWithin(B, ff.regionLoop(B), T)
		prefix := "when: "
		if !full {
			prefix = "when-partial: "
		}
		if len(guards) > 0 {
			prefix += strings.Join(guards, " && ") + " => "
		}
		for _, s := range ff.condAtomsX(iff.Cond, r0) {
			add([]string{prefix + s}, ff.condPos(B), false)
		}
	}
	sort.SliceStable(out, func(i, j int) bool { return out[i].Pos < out[j].Pos })
	ff.mustCache[T] = out
	return out
}

// condAtomsX is condAtoms plus the ok()/err() aliases for error results of calls.
func (ff *FuncFacts) condAtomsX(c ssa.Value, pol bool) []string {
	out := ff.condAtoms(c, pol)
	if call, ok := c.(*ssa.Call); ok && pol {
		// a single-use predicate helper that returned true: what it established holds here
		if b, isB := call.Type().Underlying().(*types.Basic); isB && b.Kind() == types.Bool {
			out = append(out, ff.importHelperFacts(call)...)
		}
	}
	if b, ok := c.(*ssa.BinOp); ok && (b.Op == token.EQL || b.Op == token.NEQ) && isNilConst(b.Y) && isErrorType(b.X.Type()) {
		call := ff.callTerm(b.X)
		if call == "" {
			// error variable spilled to a cell (named result / captured): its term is
			// the reaching call result
			if u, ok := b.X.(*ssa.UnOp); ok && u.Op == token.MUL {
				if m := callResultRe.FindStringSubmatch(ff.Term(u)); m != nil {
					call = m[1]
				}
			}
		}
		if call != "" {
			eq := (b.Op == token.EQL) == pol
			if eq {
				out = append(out, "ok("+call+")")
				out = append(out, ff.importHelperFacts(b.X)...)
			} else {
				out = append(out, "err("+call+")")
			}
		}
	}
	return out
}

// exitsOnlyFromHeader: every edge leaving L towards a block that can reach T starts
// at the header (the range is exhausted / the loop condition is false).
func (ff *FuncFacts) exitsOnlyFromHeader(L *Loop, T *ssa.BasicBlock) bool {
	for b := range L.Blocks {
		if b == L.Header {
			continue
		}
		for _, s := range b.Succs {
			if !L.Blocks[s] && ff.reachFrom(s, nil)[T] {
				return false
			}
		}
	}
	return true
}

// iterGuards returns the conditions under which block B is executed in an iteration
// of loop L (and of the loops nested between L and B).  full=false when B is not
// determined by its dominating branches alone (irregular region) — then the atom is
// only "forall-partial".
func (ff *FuncFacts) iterGuards(B *ssa.BasicBlock, L *Loop, T *ssa.BasicBlock) (guards []string, full bool) {
	full = true
	inner := ff.innermost[B]
	// chain of loops from inner up to L
	cur := B
	for lp := inner; lp != nil; lp = lp.Parent {
		g, f := ff.guardsWithin(cur, lp, T)
		guards = append(g, guards...)
		if !f {
			full = false
		}
		if lp != L && !ff.exitsOnlyFromHeader(lp, lp.Header) {
			// inner loop with early exits back into the outer iteration
			if !ff.innerExitsOnlyFromHeader(lp) {
				full = false
			}
		}
		if lp == L {
			return guards, full
		}
		cur = lp.Header
	}
	return guards, false
}

func (ff *FuncFacts) innerExitsOnlyFromHeader(lp *Loop) bool {
	for b := range lp.Blocks {
		if b == lp.Header {
			continue
		}
		for _, s := range b.Succs {
			if !lp.Blocks[s] {
				// leaving the inner loop from a non-header block: fine only if it
				// cannot get back to the outer latch (i.e. it is a reject)
				if lp.Parent != nil {
					for _, lt := range lp.Parent.Latches {
						if ff.reachFrom(s, nil)[lt] {
							return false
						}
					}
				}
			}
		}
	}
	return true
}

// guardsWithin: conditions for reaching B from the header of lp inside one iteration.
func (ff *FuncFacts) guardsWithin(B *ssa.BasicBlock, lp *Loop, T *ssa.BasicBlock) (guards []string, full bool) {
	full = true
	if B == lp.Header {
		return nil, true
	}
	// region: blocks of lp on some path header -> B not passing the header again
	canReachB := map[*ssa.BasicBlock]bool{}
	{
		stack := []*ssa.BasicBlock{B}
		for len(stack) > 0 {
			n := stack[len(stack)-1]
			stack = stack[:len(stack)-1]
			if canReachB[n] || !lp.Blocks[n] {
				continue
			}
			canReachB[n] = true
			if n == lp.Header {
				continue
			}
			stack = append(stack, n.Preds...)
		}
	}
	var doms []*ssa.BasicBlock
	for D := B.Idom(); D != nil && lp.Blocks[D]; D = D.Idom() {
		doms = append(doms, D)
		if D == lp.Header {
			break
		}
	}
	isDom := map[*ssa.BasicBlock]bool{}
	for _, D := range doms {
		isDom[D] = true
	}
	for D := range canReachB {
		if D == B {
			continue
		}
		iff := ifOf(D)
		if iff == nil {
			continue
		}
		if D == lp.Header && lp != ff.whole {
			continue
		}
		in0 := canReachB[D.Succs[0]] && D.Succs[0] != lp.Header
		in1 := canReachB[D.Succs[1]] && D.Succs[1] != lp.Header
		if D.Succs[0] == B {
			in0 = true
		}
		if D.Succs[1] == B {
			in1 = true
		}
		if in0 && in1 {
			continue
		}
		// the edge that leaves the region: irrelevant when it cannot reach T
		esc := D.Succs[0]
		if in0 {
			esc = D.Succs[1]
		}
		if T != nil && !ff.reachFrom(esc, nil)[T] {
			continue
		}
		if !isDom[D] {
			full = false
			continue
		}
		guards = append(guards, ff.condAtomsX(iff.Cond, in0)[0])
	}
	sort.Strings(guards)
	return guards, full
}

// ---------------------------------------------------------------------------
// Return classification

type ExitKind int

const (
	ExitSuccess ExitKind = iota // error result is nil / bool result true
	ExitReject                  // non-nil error / false
	ExitTail                    // returns the error of a call: success iff ok(call)
	ExitPanic
	ExitUnknown
)

type Exit struct {
	Kind  ExitKind
	Block *ssa.BasicBlock // block whose Must() set applies
	Ret   *ssa.Return
	Val   ssa.Value // the (resolved) verdict value this exit returns
	Extra []string  // additional atoms known on this exit (ok(tail call))
	Desc  string    // rendered returned error (for reject sites)
	Pos   token.Pos
}

// resultIndex returns the index of the verdict result of fn: the last result if it
// is an error, else a sole bool/int result; -1 if none.
func verdictIndex(fn *ssa.Function) int {
	res := fn.Signature.Results()
	if res.Len() == 0 {
		return -1
	}
	last := res.At(res.Len() - 1).Type()
	if isErrorType(last) {
		return res.Len() - 1
	}
	if b, ok := last.Underlying().(*types.Basic); ok && (b.Kind() == types.Bool || b.Info()&types.IsInteger != 0) && res.Len() == 1 {
		return 0
	}
	return -1
}

// Exits classifies every return of the function.
func (ff *FuncFacts) Exits() []Exit {
	fn := ff.Fn
	vi := verdictIndex(fn)
	var out []Exit
	for _, b := range fn.Blocks {
		if len(b.Instrs) == 0 {
			continue
		}
		if b == fn.Recover {
			continue // synthetic block executed only after a recovered panic
		}
		if !ff.reachFrom(fn.Blocks[0], nil)[b] {
			continue // only reachable through a no-return call
		}
		if ff.noReturn(b) {
			out = append(out, Exit{Kind: ExitPanic, Block: b, Pos: ff.condPos(b), Desc: "no-return call (log.Panic / Fatal)"})
			continue
		}
		switch last := b.Instrs[len(b.Instrs)-1].(type) {
		case *ssa.Panic:
			out = append(out, Exit{Kind: ExitPanic, Block: b, Pos: last.Pos(), Desc: "panic(" + ff.Term(last.X) + ")"})
		case *ssa.Return:
			if vi < 0 || vi >= len(last.Results) {
				out = append(out, Exit{Kind: ExitSuccess, Block: b, Ret: last, Pos: last.Pos()})
				continue
			}
			out = append(out, ff.classify(last.Results[vi], b, last, 0)...)
		}
	}
	return out
}

func (ff *FuncFacts) classify(v ssa.Value, b *ssa.BasicBlock, ret *ssa.Return, depth int) []Exit {
	pos := ret.Pos()
	mk := func(k ExitKind, extra []string, desc string) []Exit {
		return []Exit{{Kind: k, Block: b, Ret: ret, Val: v, Extra: extra, Desc: desc, Pos: pos}}
	}
	desc := ff.Term(v)
	if isErrorType(v.Type()) {
		// strip interface-to-interface conversions (gnet.DisconnectReason -> error)
		for {
			if ci, ok := v.(*ssa.ChangeInterface); ok {
				v = ci.X
				continue
			}
			if ct, ok := v.(*ssa.ChangeType); ok && isErrorType(ct.X.Type()) {
				v = ct.X
				continue
			}
			break
		}
		switch x := v.(type) {
		case *ssa.Const:
			if x.Value == nil {
				return mk(ExitSuccess, nil, "nil")
			}
		case *ssa.MakeInterface:
			return mk(ExitReject, nil, desc)
		case *ssa.UnOp:
			if al, ok := x.X.(*ssa.Alloc); ok && x.Op == token.MUL && depth < 3 {
				// named / defer-spilled result: classify the store that reaches the return
				sts, zero := reachingStores(al, x)
				if len(sts) == 1 && !zero {
					return ff.classify(sts[0].Val, b, ret, depth+1)
				}
			}
			if _, ok := x.X.(*ssa.Global); ok && x.Op == token.MUL {
				return mk(ExitReject, nil, desc) // sentinel error variable
			}
		case *ssa.Phi:
			if depth < 3 {
				var out []Exit
				for i, e := range x.Edges {
					pb := x.Block().Preds[i]
					for _, ex := range ff.classify(e, pb, ret, depth+1) {
						// facts at the end of the predecessor: Must(pred) plus its own branch
						ex.Block = pb
						ex.Extra = append(ex.Extra, ff.edgeAtoms(pb, x.Block())...)
						out = append(out, ex)
					}
				}
				return out
			}
		}
		// known non-nil in this block?
		for _, a := range ff.Must(b) {
			if a.S == desc+" != nil" {
				return mk(ExitReject, nil, desc)
			}
			if a.S == desc+" == nil" {
				return mk(ExitSuccess, nil, desc)
			}
		}
		if call := ff.callTerm(v); call != "" {
			if isAlwaysErr(v) || ff.alwaysErrCallee(v) {
				return mk(ExitReject, nil, desc)
			}
			if arg, ok := ff.nilPreserving(v); ok {
				// wrapper(err): nil iff err is nil
				exs := ff.classify(arg, b, ret, depth+1)
				for i := range exs {
					exs[i].Desc = desc
				}
				return exs
			}
			return mk(ExitTail, append([]string{"ok(" + call + ")"}, ff.importHelperFacts(v)...), desc)
		}
		return mk(ExitUnknown, nil, desc)
	}
	// bool / int verdicts
	if c, ok := v.(*ssa.Const); ok && c.Value != nil {
		switch c.Value.Kind() {
		case constant.Bool:
			if constant.BoolVal(c.Value) {
				return mk(ExitSuccess, nil, "true")
			}
			return mk(ExitReject, nil, "false")
		case constant.Int:
			if x, _ := constant.Int64Val(c.Value); x == 1 {
				return mk(ExitSuccess, nil, "1")
			}
			return mk(ExitReject, nil, desc)
		}
	}
	if phi, ok := v.(*ssa.Phi); ok && depth < 3 {
		var out []Exit
		for i, e := range phi.Edges {
			pb := phi.Block().Preds[i]
			for _, ex := range ff.classify(e, pb, ret, depth+1) {
				ex.Block = pb
				ex.Extra = append(ex.Extra, ff.edgeAtoms(pb, phi.Block())...)
				out = append(out, ex)
			}
		}
		return out
	}
	// a bool expression returned directly: success iff it is true
	if bt, ok := v.Type().Underlying().(*types.Basic); ok && bt.Kind() == types.Bool {
		return mk(ExitTail, ff.condAtomsX(v, true), desc)
	}
	return mk(ExitUnknown, nil, desc)
}

// edgeAtoms: the branch condition that holds on the edge from -> to.
func (ff *FuncFacts) edgeAtoms(from, to *ssa.BasicBlock) []string {
	iff := ifOf(from)
	if iff == nil || from.Succs[0] == from.Succs[1] {
		return nil
	}
	if from.Succs[0] == to {
		return ff.condAtomsX(iff.Cond, true)
	}
	if from.Succs[1] == to {
		return ff.condAtomsX(iff.Cond, false)
	}
	return nil
}

// isAlwaysErr: calls that construct a non-nil error.
func isAlwaysErr(v ssa.Value) bool {
	c, ok := v.(*ssa.Call)
	if !ok {
		return false
	}
	f := c.Call.StaticCallee()
	if f == nil || f.Pkg == nil {
		return false
	}
	switch f.Pkg.Pkg.Path() + "." + f.Name() {
	case "errors.New", "fmt.Errorf":
		return true
	}
	return false
}

// nilPreserving recognises module wrappers of the shape
//
//	func W(err error) error { if err == nil { return nil }; return T{err} }
//
// (visor.NewErrTxnViolatesHardConstraint and friends) by analysing W itself:
// W's only success exit requires "$0 == nil", and every exit under "$0 != nil" rejects.
func (ff *FuncFacts) nilPreserving(v ssa.Value) (ssa.Value, bool) {
	c, ok := v.(*ssa.Call)
	if !ok {
		return nil, false
	}
	f := c.Call.StaticCallee()
	if f == nil || f.Blocks == nil || len(f.Params) != 1 || !isErrorType(f.Params[0].Type()) || !InModule(f) {
		return nil, false
	}
	if f == ff.Fn {
		return nil, false
	}
	wf := ff.P.Facts(f)
	nSucc := 0
	for _, ex := range wf.Exits() {
		switch ex.Kind {
		case ExitSuccess:
			has := false
			for _, a := range wf.Must(ex.Block) {
				if a.S == "$0 == nil" {
					has = true
				}
			}
			if !has {
				return nil, false
			}
			nSucc++
		case ExitReject:
			has := false
			for _, a := range wf.Must(ex.Block) {
				if a.S == "$0 != nil" {
					has = true
				}
			}
			if !has {
				return nil, false
			}
		default:
			return nil, false
		}
	}
	if nSucc == 0 {
		return nil, false
	}
	return c.Call.Args[0], true
}

// MustAt returns Must(block of instr) — the facts that hold when instr executes
// (branches inside the same block come after every non-terminator instruction).
func (ff *FuncFacts) MustAt(in ssa.Instruction) []Atom { return ff.Must(in.Block()) }

// SuccessFacts returns, for every success exit, the atom strings that hold there.
func (ff *FuncFacts) SuccessFacts() (exits []Exit, facts [][]string) {
	for _, ex := range ff.Exits() {
		if ex.Kind != ExitSuccess && ex.Kind != ExitTail {
			continue
		}
		var fs []string
		for _, a := range ff.Must(ex.Block) {
			fs = append(fs, a.S)
		}
		fs = append(fs, ex.Extra...)
		exits = append(exits, ex)
		facts = append(facts, fs)
	}
	return
}

// regionLoop returns the innermost loop of B, or a pseudo-loop covering the whole
// function (header = entry block) when B is in no loop.
func (ff *FuncFacts) regionLoop(B *ssa.BasicBlock) *Loop {
	if l := ff.innermost[B]; l != nil {
		return l
	}
	if ff.whole == nil {
		ff.whole = &Loop{Header: ff.Fn.Blocks[0], Blocks: map[*ssa.BasicBlock]bool{}}
		for _, b := range ff.Fn.Blocks {
			ff.whole.Blocks[b] = true
		}
	}
	return ff.whole
}

// condPos: source position of the branch ending block B.
func (ff *FuncFacts) condPos(B *ssa.BasicBlock) token.Pos {
	iff := ifOf(B)
	if iff != nil {
		if in, ok := iff.Cond.(ssa.Instruction); ok && in.Block() == B && iff.Cond.Pos().IsValid() {
			return iff.Cond.Pos()
		}
	}
	for i := len(B.Instrs) - 1; i >= 0; i-- {
		if p := B.Instrs[i].Pos(); p.IsValid() {
			return p
		}
	}
	if iff != nil {
		return iff.Cond.Pos()
	}
	return token.NoPos
}

// Enforced lists, for every branch of the function one of whose edges can reach no
// success exit, the condition that the other edge establishes ("the function
// rejects unless c").  Used for the exhaustive ("accepts exactly") side.
type EnforcedCond struct {
	Atoms []string
	Pos   token.Pos
	Block *ssa.BasicBlock
}

func (ff *FuncFacts) Enforced() []EnforcedCond {
	succ := map[*ssa.BasicBlock]bool{}
	for _, ex := range ff.Exits() {
		if ex.Kind == ExitSuccess || ex.Kind == ExitTail || ex.Kind == ExitUnknown {
			succ[ex.Block] = true
		}
	}
	canSucceed := func(b *ssa.BasicBlock) bool {
		for x := range ff.reachFrom(b, nil) {
			if succ[x] {
				return true
			}
		}
		return false
	}
	var out []EnforcedCond
	for _, B := range ff.Fn.Blocks {
		iff := ifOf(B)
		if iff == nil || B.Succs[0] == B.Succs[1] {
			continue
		}
		c0, c1 := canSucceed(B.Succs[0]), canSucceed(B.Succs[1])
		if c0 == c1 {
			continue
		}
		out = append(out, EnforcedCond{Atoms: ff.condAtomsX(iff.Cond, c0), Pos: ff.condPos(B), Block: B})
	}
	sort.Slice(out, func(i, j int) bool { return out[i].Pos < out[j].Pos })
	return out
}

// rangeDesc renders the iteration space of the loops from L down to the innermost
// loop of B: "(i<len($0.Out))", "(i<N)(j=(i + 1);j<N)", "(range M)".
func (ff *FuncFacts) rangeDesc(B *ssa.BasicBlock, L *Loop) string {
	var chain []*Loop
	for lp := ff.innermost[B]; lp != nil; lp = lp.Parent {
		chain = append([]*Loop{lp}, chain...)
		if lp == L {
			break
		}
	}
	s := ""
	for _, lp := range chain {
		s += "(" + ff.loopSpace(lp) + ")"
	}
	return s
}

func (ff *FuncFacts) loopSpace(lp *Loop) string {
	iff := ifOf(lp.Header)
	if iff == nil {
		return "?"
	}
	// map / string range: header branches on next(range(X))#0
	if ex, ok := iff.Cond.(*ssa.Extract); ok {
		if nx, ok := ex.Tuple.(*ssa.Next); ok {
			if rg, ok := nx.Iter.(*ssa.Range); ok {
				return "range " + ff.Term(rg.X)
			}
		}
	}
	b, ok := iff.Cond.(*ssa.BinOp)
	if !ok || !lp.Blocks[lp.Header.Succs[0]] {
		return "?"
	}
	name := loopVarName(lp.Depth)
	x := ff.Term(b.X)
	if x != name {
		return "? " + ff.condAtoms(iff.Cond, true)[0]
	}
	init := ""
	for _, in := range lp.Header.Instrs {
		phi, ok := in.(*ssa.Phi)
		if !ok {
			break
		}
		if n, ok := ff.inductionPhi[phi]; ok && (n == name || n == "("+name+"-1)") {
			for i, pred := range lp.Header.Preds {
				if !lp.Blocks[pred] {
					e := phi.Edges[i]
					if n == name && !isConstInt(e, 0) {
						init = name + "=" + ff.Term(e) + ";"
					}
					if n != name && !isConstInt(e, -1) {
						init = name + "=" + ff.Term(e) + "+1;"
					}
				}
			}
		}
	}
	return init + name + " " + b.Op.String() + " " + ff.Term(b.Y)
}

// StoreFacts lists every store of the function as "ADDR := VALUE" (normalised
// terms), plus map updates as "MAP[KEY] := VALUE".
func (ff *FuncFacts) StoreFacts() []StoreFact {
	var out []StoreFact
	for _, b := range ff.Fn.Blocks {
		for _, in := range b.Instrs {
			switch s := in.(type) {
			case *ssa.Store:
				out = append(out, StoreFact{S: ff.Term(s.Addr) + " := " + ff.Term(s.Val), In: s})
			case *ssa.MapUpdate:
				out = append(out, StoreFact{S: ff.Term(s.Map) + "[" + ff.Term(s.Key) + "] := " + ff.Term(s.Value), In: s})
			}
		}
	}
	return out
}

type StoreFact struct {
	S  string
	In ssa.Instruction
}

var callResultRe = regexp.MustCompile(`^([A-Za-z_][^ ]*\(.*\))(#\d+)?$`)

var alwaysErrMemo = map[*ssa.Function]int{} // 1 = yes, 2 = no, 3 = in progress

// alwaysErrCallee: v is a call to a module function all of whose exits return a
// non-nil error (an error constructor such as blockdb.NewErrUnspentNotExist).
func (ff *FuncFacts) alwaysErrCallee(v ssa.Value) bool {
	c, ok := v.(*ssa.Call)
	if !ok {
		return false
	}
	f := c.Call.StaticCallee()
	if f == nil || f.Blocks == nil || !InModule(f) {
		return false
	}
	switch alwaysErrMemo[f] {
	case 1:
		return true
	case 2, 3:
		return false
	}
	alwaysErrMemo[f] = 3
	res := true
	exits := ff.P.Facts(f).Exits()
	if len(exits) == 0 {
		res = false
	}
	for _, ex := range exits {
		if ex.Kind != ExitReject {
			res = false
		}
	}
	if res {
		alwaysErrMemo[f] = 1
	} else {
		alwaysErrMemo[f] = 2
	}
	return res
}

// reachWithin: is `to` reachable from `from` staying inside loop lp, not passing
// through `avoid`, and not re-entering the header?
func (ff *FuncFacts) reachWithin(lp *Loop, from, to, avoid *ssa.BasicBlock) bool {
	seen := map[*ssa.BasicBlock]bool{}
	stack := []*ssa.BasicBlock{from}
	first := true
	for len(stack) > 0 {
		n := stack[len(stack)-1]
		stack = stack[:len(stack)-1]
		if seen[n] || n == avoid || !lp.Blocks[n] {
			continue
		}
		if n == lp.Header && !first {
			continue
		}
		first = false
		seen[n] = true
		if n == to {
			return true
		}
		stack = append(stack, n.Succs...)
	}
	return false
}

// PathFacts enumerates the acyclic paths reaching block T — from the header of T's
// innermost loop when T is inside a loop (one iteration), else from the entry block —
// and returns, per path, the branch atoms taken.  ok=false if more than maxPaths.
func (ff *FuncFacts) PathFacts(T *ssa.BasicBlock, maxPaths int) (paths [][]string, ok bool) {
	start := ff.Fn.Blocks[0]
	lp := ff.innermost[T]
	if lp != nil {
		start = lp.Header
	}
	ok = true
	var cur []string
	onPath := map[*ssa.BasicBlock]bool{}
	var dfs func(b *ssa.BasicBlock)
	dfs = func(b *ssa.BasicBlock) {
		if !ok {
			return
		}
		if b == T {
			paths = append(paths, append([]string(nil), cur...))
			if len(paths) > maxPaths {
				ok = false
			}
			return
		}
		if onPath[b] {
			return
		}
		if lp != nil && !lp.Blocks[b] {
			return
		}
		if !ff.reachFrom(b, nil)[T] {
			return
		}
		onPath[b] = true
		for _, s := range b.Succs {
			if lp != nil && s == lp.Header {
				continue
			}
			n := len(cur)
			cur = append(cur, ff.edgeAtoms(b, s)...)
			dfs(s)
			cur = cur[:n]
		}
		onPath[b] = false
	}
	dfs(start)
	return
}

// noReturn: the block contains a call that never returns normally (logger.Panic*,
// log.Fatal*, os.Exit).  go/ssa only ends blocks at the panic builtin, so these are
// modelled here.
func (ff *FuncFacts) noReturn(b *ssa.BasicBlock) bool {
	if v, ok := ff.noRet[b]; ok {
		return v
	}
	res := false
	for _, in := range b.Instrs {
		c, ok := in.(*ssa.Call)
		if !ok {
			continue
		}
		if isNoReturnCallee(&c.Call) {
			res = true
		}
	}
	if ff.noRet == nil {
		ff.noRet = map[*ssa.BasicBlock]bool{}
	}
	ff.noRet[b] = res
	return res
}

func isNoReturnCallee(c *ssa.CallCommon) bool {
	name := calleeName(c)
	if name == "os.Exit" {
		return true
	}
	i := strings.LastIndex(name, ".")
	if i < 0 {
		return false
	}
	meth := name[i+1:]
	if !strings.HasPrefix(meth, "Panic") && !strings.HasPrefix(meth, "Fatal") {
		return false
	}
	recv := name[:i]
	switch {
	case recv == "log", strings.HasPrefix(recv, "log."), strings.HasPrefix(recv, "logrus."), recv == "logrus",
		strings.HasPrefix(recv, "util/logging."), strings.HasPrefix(recv, "iface:logrus."), strings.HasPrefix(recv, "iface:util/logging."):
		return true
	}
	return false
}

// everyIteration: block B of loop lp is executed on every iteration that reaches a latch.
func (ff *FuncFacts) everyIteration(B *ssa.BasicBlock, lp *Loop) bool {
	reach := ff.reachFrom(lp.Header, B)
	for _, lt := range lp.Latches {
		if reach[lt] && lt != B && ff.reachWithin(lp, lp.Header, lt, B) {
			return false
		}
	}
	return true
}

// importHelperFacts: the error value errv is the (last) result of a call to a single-use check helper:
// what the helper establishes on success holds in the caller after "ok(call)".
func (ff *FuncFacts) importHelperFacts(errv ssa.Value) []string {
	var call *ssa.Call
	switch x := errv.(type) {
	case *ssa.Call:
		call = x
	case *ssa.Extract:
		call, _ = x.Tuple.(*ssa.Call)
	case *ssa.UnOp:
		// spilled error variable: follow a single reaching store
		if al, ok := x.X.(*ssa.Alloc); ok {
			var st *ssa.Store
			n := 0
			for _, rf := range *al.Referrers() {
				if s, ok := rf.(*ssa.Store); ok && s.Addr == al {
					st, n = s, n+1
				}
			}
			if n == 1 {
				return ff.importHelperFacts(st.Val)
			}
		}
	}
	if call == nil {
		return nil
	}
	f := call.Call.StaticCallee()
	if f == nil || f == ff.Fn {
		return nil
	}
	fs := ff.P.checkHelperFacts(f)
	if len(fs) == 0 {
		return nil
	}
	var args []string
	for _, a := range call.Call.Args {
		args = append(args, ff.Term(a))
	}
	var out []string
	for _, a := range fs {
		out = append(out, substParams(a, args))
	}
	return out
}
