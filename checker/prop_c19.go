package main

import (
	"fmt"
	"sort"
	"strings"

	"golang.org/x/tools/go/ssa"
)

func init() { props["C19"] = checkC19 }

func checkC19(r *Run) {
	r.Explain = "(R2+) the live object returned by wallets.get never escapes: every use is a nil test or a read-only method call, it is never returned nor handed to other code; (R4+) the fingerprint of a created wallet is registered under no other condition than being non-empty (the condition of the conflict test), and unload / bulk load treat the map symmetrically; C19: (R1) typestate saved(w): every Service method that publishes a wallet into the in-memory set (wallets.set) does so only on paths where that same wallet value was saved to the wallet directory without error or is a temporary wallet (all-paths rule); a wallet added before saving is removed again on the failing edge; (R2) service methods mutate clones only: what they publish derives from getWallet (a Clone) or a freshly created wallet, and values obtained directly from the set are used read-only; (R3) a failed operation changes neither view: after wallets.set / the fingerprint update no error return is reachable (UnloadWallet is in-memory by design); (R4) a new wallet is refused when its fingerprint is already registered, before it is added; (R5) every access to the wallet set and the fingerprint map happens under the service mutex."
	r.NotDec = "equality with a freshly started service for a concrete operation sequence; file-system failures between Save and set"
	ruleRecoverWalletOptions(r, "C19-R6")
	// what is published is exactly what was saved: between Save(w) and wallets.set(w) the wallet is not modified
	savedRO := map[string]bool{"Filename": true, "Clone": true, "IsTemp": true, "Fingerprint": true, "Label": true, "Type": true, "IsEncrypted": true, "Timestamp": true, "EntriesLen": true, "GetEntries": true, "Coin": true, "Seed": true}
	for _, fn := range r.P.ModFns {
		if !strings.HasPrefix(FnName(fn), "wallet.Service.") {
			continue
		}
		ff := r.P.Facts(fn)
		for _, sv := range r.CallSites(fn, "wallet.Save") {
			w := r.argTerm(sv, 0)
			for _, st := range r.CallSites(fn, "wallet.Wallets.set") {
				if r.argTerm(st, 1) != w {
					continue
				}
				reach := ff.reachFrom(sv.Block(), nil)
				for _, b := range fn.Blocks {
					if !reach[b] || !ff.reachFrom(b, nil)[st.Block()] {
						continue
					}
					for _, in := range b.Instrs {
						ci, ok := in.(ssa.CallInstruction)
						if !ok || !ci.Common().IsInvoke() || savedRO[ci.Common().Method.Name()] {
							continue
						}
						if ff.Term(ci.Common().Value) != w {
							continue
						}
						// same block as Save: only instructions after it count
						if b == sv.Block() && !(posAfter(b, in, sv)) {
							continue
						}
						r.Check("C19-R1", FnName(fn)+": the wallet is not modified between Save and publication ("+ci.Common().Method.Name()+")", r.P.Pos(in.Pos()), false,
							"the object installed in memory differs from the file that was written: a freshly started service loads another wallet")
					}
				}
			}
		}
	}
	if nCl, shallow, spos := shallowClones(r.P, "wallet.", "wallet/"); true {
		r.Units["clone methods inspected"] = nCl
		for i, s := range shallow {
			r.Check("C19-R2", "clones are deep: "+s, r.P.Pos(spos[i].Pos()), false, "an operation on the clone (Unlock, Erase, secret updates) writes through to the live wallet even when the operation fails")
		}
		r.Check("C19-R2", "clone methods of the wallet packages found", "", nCl >= 2, fmt.Sprint(nCl))
	}
	if _, aliased := loopAliasedAddrs(r.P, "wallet.", "wallet/"); true {
		for _, in := range aliased {
			r.Check("C19-R2", FnName(in.Parent())+": clones hold one distinct object per element", r.P.Pos(in.Pos()), false, "the address of a loop-carried variable is stored in every iteration")
		}
	}
	// the in-memory set and Save are keyed by Filename(): a loaded wallet is always named after the file it came from
	if fn := r.fn("C19-R7", "wallet.Load"); fn != nil {
		ff := r.P.Facts(fn)
		sites := r.CallSites(fn, "iface:wallet.Wallet.SetFilename")
		okName := len(sites) == 1 && r.argTerm(sites[0], 0) == "filepath.Base($0)"
		got := ""
		if len(sites) == 1 {
			got = r.argTerm(sites[0], 0)
		}
		r.Check("C19-R7", "wallet.Load names the wallet after the base name of the file it was read from", r.P.Pos(fn.Pos()), okName, got)
		n := 0
		for _, e := range ff.Exits() {
			if e.Kind != ExitSuccess || e.Ret == nil {
				continue
			}
			if c, isC := e.Ret.Results[0].(*ssa.Const); isC && c.IsNil() {
				continue // unknown wallet type: nothing loaded
			}
			n++
			dom := len(sites) == 1 && (sites[0].Block() == e.Ret.Block() || sites[0].Block().Dominates(e.Ret.Block()))
			r.Check("C19-R7", "wallet.Load: every returned wallet had its file name set (unconditionally)", r.P.Pos(e.Ret.Pos()), dom, "a wallet whose stored name differs from its file is saved to, and registered under, another name")
		}
		r.Check("C19-R7", "wallet.Load: success exits returning a wallet", r.P.Pos(fn.Pos()), n >= 1, "")
	}
	nset := 0
	for _, fn := range r.P.ModFns {
		name := FnName(fn)
		if !strings.HasPrefix(name, "wallet.Service.") {
			continue
		}
		ff := r.P.Facts(fn)
		for _, cs := range r.CallSites(fn, "wallet.Wallets.set") {
			nset++
			w := r.argTerm(cs, 1)
			r.RequireAtCallAllPaths("C19-R1", fn, "wallet.Wallets.set", 1,
				req("the published wallet was saved without error, or is temporary", "ok(wallet.Save("+w+", $0.config.WalletDir))", "iface:wallet.Wallet.IsTemp("+w+")"))
			// R2 provenance of the published value
			// a single-use helper publishes what its only caller hands it
			for h, d := fn, 0; d < 2 && r.P.singleUse(h); d++ {
				site, caller := r.P.onlyCallSite(h)
				if site == nil {
					break
				}
				cf := r.P.Facts(caller)
				var args []string
				for _, a := range site.Common().Args {
					args = append(args, cf.Term(a))
				}
				w = substParams(w, args)
				h = caller
			}
			okp := strings.Contains(w, "wallet.Service.getWallet($0, ") || strings.Contains(w, "wallet.Service.createWallet(") || strings.Contains(w, "iface:wallet.Wallet.Clone(")
			r.Check("C19-R2", name+": the published wallet is a clone / freshly created value", r.P.Pos(cs.Pos()), okp, trunc(w, 200))
			// R3: after set only success returns
			bad := ""
			for b := range ff.reachFrom(cs.Block(), nil) {
				for _, ex := range ff.Exits() {
					if ex.Block == b && (ex.Kind == ExitReject) {
						// reject exits reachable from the set block: only a problem if the path goes through the set call (same block after, or later blocks)
						if b != cs.Block() {
							bad = r.P.Pos(ex.Pos)
						}
					}
				}
			}
			r.Check("C19-R3", name+": no error return after the in-memory set", r.P.Pos(cs.Pos()), bad == "", "an error is returned at "+bad+" after the wallet was already published in memory")
		}
	}
	r.Units["wallets.set call sites"] = nset
	if nset < 8 {
		r.Fail("C19-R1", "instance-count wallets.set", "", "expected >= 8 publishing sites in wallet.Service")
	}
	// add-before-save with rollback (loadWallet)
	const lw = "wallet.Service.loadWallet"
	w := "wallet.Service.createWallet($0, $1, wallet.Service.updateOptions($0, $2))#0"
	r.RequireOnSuccess("C19-R1", lw,
		req("added to the set", "ok(wallet.Wallets.add($0.wallets, "+w+"))"),
		req("saved", "ok(wallet.Save("+w+", $0.config.WalletDir))"))
	r.RequireAtCall("C19-R1", lw, "wallet.Wallets.remove", 1,
		req("rollback only on the failing edge of Save", "err(wallet.Save("+w+", $0.config.WalletDir))"))
	if fn := r.P.Fn(lw); fn != nil {
		ff := r.P.Facts(fn)
		// every reject exit after add passes remove
		for _, ex := range ff.Exits() {
			if ex.Kind != ExitReject {
				continue
			}
			var fs []string
			for _, a := range ff.Must(ex.Block) {
				fs = append(fs, a.S)
			}
			if _, added := matchAny([]string{"ok(wallet.Wallets.add($0.wallets, " + w + "))"}, fs); !added {
				continue
			}
			has := false
			for _, in := range ex.Block.Instrs {
				if c, ok := in.(*ssa.Call); ok && calleeName(&c.Call) == "wallet.Wallets.remove" {
					has = true
				}
			}
			r.Check("C19-R1", lw+": an error return after add removes the wallet again", r.P.Pos(ex.Pos), has, "")
		}
	}
	// R4
	fp := "iface:wallet.Wallet.Fingerprint(" + w + ")"
	r.RequireAtCall("C19-R4", lw, "wallet.Wallets.add", 1,
		req("a non-empty fingerprint must not be registered yet", `when: `+fp+` != "" => !lookup($0.fingerprints[`+fp+`])#1`))
	r.RequireOnSuccess("C19-R4", "wallet.Wallets.add", req("refuses an existing file name", "!lookup($0[iface:wallet.Wallet.Filename($1)])#1"))
	r.RequireStore("C19-R4", lw, "the fingerprint of the new wallet is registered", "$0.fingerprints["+fp+"] := iface:wallet.Wallet.Filename*("+w+")")
	// the registration happens under exactly the condition of the conflict test (non-empty fingerprint):
	// the only branch condition between the successful save and the registration is fp != ""
	if fn := r.fn("C19-R4", lw); fn != nil {
		ff := r.P.Facts(fn)
		var saveBlk *ssa.BasicBlock
		for _, cs := range r.CallSites(fn, "wallet.Save") {
			saveBlk = cs.Block()
		}
		n := 0
		for _, b := range fn.Blocks {
			for _, in := range b.Instrs {
				mu, ok := in.(*ssa.MapUpdate)
				if !ok || !strings.HasSuffix(ff.Term(mu.Map), ".fingerprints") {
					continue
				}
				n++
				base := map[string]bool{}
				if saveBlk != nil {
					for _, a := range ff.Must(saveBlk) {
						base[a.S] = true
					}
				}
				var extra []string
				for _, a := range ff.Must(b) {
					if base[a.S] || strings.Contains(a.S, "wallet.Save(") || a.S == fp+` != ""` || a.S == `"" != `+fp {
						continue
					}
					extra = append(extra, a.S)
				}
				r.Check("C19-R4", lw+": every wallet with a fingerprint is registered once saved (no further condition)", r.P.Pos(mu.Pos()), saveBlk != nil && len(extra) == 0, "registration also depends on: "+trunc(strings.Join(extra, " ; "), 300))
			}
		}
		r.Check("C19-R4", lw+": fingerprint registration sites", "", n == 1, "")
	}
	// unloading and bulk loading treat the map symmetrically: delete / insert for every wallet with a fingerprint
	for _, sym := range []struct{ fn, what string }{{"wallet.Service.UnloadWallet", "delete"}, {"wallet.Service.setWallets", "insert"}} {
		fn := r.fn("C19-R4", sym.fn)
		if fn == nil {
			continue
		}
		ff := r.P.Facts(fn)
		n := 0
		for _, b := range fn.Blocks {
			for _, in := range b.Instrs {
				var key ssa.Value
				switch x := in.(type) {
				case *ssa.MapUpdate:
					if sym.what == "insert" && strings.HasSuffix(ff.Term(x.Map), ".fingerprints") {
						key = x.Key
					}
				case *ssa.Call:
					if sym.what == "delete" && calleeName(&x.Call) == "delete" && strings.HasSuffix(ff.Term(x.Call.Args[0]), ".fingerprints") {
						key = x.Call.Args[1]
					}
				}
				if key == nil {
					continue
				}
				n++
				kt := ff.Term(key)
				var conds []string
				for _, a := range ff.Must(b) {
					if strings.Contains(a.S, "Fingerprint(") && !strings.Contains(a.S, kt+` != ""`) && !strings.Contains(a.S, `"" != `+kt) {
						conds = append(conds, a.S)
					}
					if strings.Contains(a.S, "IsTemp") || strings.Contains(a.S, "IsEncrypted") || strings.Contains(a.S, "Type(") {
						conds = append(conds, a.S)
					}
				}
				r.Check("C19-R4", sym.fn+": the fingerprint map "+sym.what+" depends only on the fingerprint being non-empty", r.P.Pos(in.Pos()), strings.Contains(kt, "Fingerprint(") && len(conds) == 0, trunc(strings.Join(conds, " ; "), 200))
			}
		}
		r.Check("C19-R4", sym.fn+": fingerprint map "+sym.what+" sites", "", n == 1, "")
	}
	r.RequireOnSuccessExcept("C19-R4", "wallet.NewService", []string{"!*.config.EnableWalletAPI"},
		req("start-up refuses duplicate wallets on disk", "!wallet.Wallets.containsDuplicate(*)#2"),
		req("start-up refuses empty wallets", "!wallet.Wallets.containsEmpty(*)#1"))
	// R2: values taken directly from the set are read-only
	readOnly := map[string]bool{"Clone": true, "IsTemp": true, "Fingerprint": true, "Filename": true, "Type": true, "IsEncrypted": true, "Label": true}
	for _, fn := range r.P.ModFns {
		if !strings.HasPrefix(FnName(fn), "wallet.Service.") {
			continue
		}
		for _, b := range fn.Blocks {
			for _, in := range b.Instrs {
				c, ok := in.(*ssa.Call)
				if !ok || !c.Call.IsInvoke() {
					continue
				}
				src, ok := c.Call.Value.(*ssa.Call)
				if !ok || calleeName(&src.Call) != "wallet.Wallets.get" {
					continue
				}
				r.Check("C19-R2", FnName(fn)+": "+c.Call.Method.Name()+" on a wallet taken directly from the set is read-only", r.P.Pos(c.Pos()), readOnly[c.Call.Method.Name()], "mutating the shared in-memory wallet bypasses save-then-set")
			}
		}
	}
	// R2b: the live object never escapes: every use of a value obtained from wallets.get is a nil test, a
	// read-only method call on it, or it is handed to a function of the reviewed table
	escOK := map[string]string{}
	nGet := 0
	for _, fn := range r.P.ModFns {
		if !strings.HasPrefix(FnName(fn), "wallet.") {
			continue
		}
		ff := r.P.Facts(fn)
		for _, b := range fn.Blocks {
			for _, in := range b.Instrs {
				src, ok := in.(*ssa.Call)
				if !ok || calleeName(&src.Call) != "wallet.Wallets.get" {
					continue
				}
				nGet++
				seen := map[ssa.Value]bool{}
				var visit func(v ssa.Value)
				visit = func(v ssa.Value) {
					if seen[v] || v.Referrers() == nil {
						return
					}
					seen[v] = true
					for _, rf := range *v.Referrers() {
						switch x := rf.(type) {
						case *ssa.BinOp:
							// nil comparison
						case *ssa.Phi:
							visit(x)
						case *ssa.MakeInterface:
							visit(x)
						case *ssa.ChangeInterface:
							visit(x)
						case *ssa.DebugRef:
						case *ssa.Return:
							// returning the live object: only the unexported accessor getWallet-style helpers may, and they must clone
							r.Check("C19-R2", FnName(fn)+": the live wallet object is not returned to callers", r.P.Pos(x.Pos()), false, "returns the shared in-memory wallet instead of a clone")
						case ssa.CallInstruction:
							cc := x.Common()
							if cc.IsInvoke() && cc.Value == v {
								r.Check("C19-R2", FnName(fn)+": "+cc.Method.Name()+" on the live wallet is read-only", r.P.Pos(x.Pos()), readOnly[cc.Method.Name()], "mutating the shared in-memory wallet without saving it makes memory and disk disagree")
								continue
							}
							key := FnName(fn) + " -> " + calleeName(cc)
							_, okk := escOK[key]
							r.Check("C19-R2", key+": the live wallet object is not handed to other code", r.P.Pos(x.Pos()), okk, "the value from wallets.get (not a clone) is passed on: "+trunc(ff.Term(v), 80))
						default:
							r.Check("C19-R2", FnName(fn)+": use of the live wallet object is a nil test or a read-only call", r.P.Pos(rf.Pos()), false, fmt.Sprintf("%T", rf))
						}
					}
				}
				visit(src)
			}
		}
	}
	r.Check("C19-R2", "wallets.get call sites scanned", "", nGet >= 3, fmt.Sprint(nGet))
	// R5 locks
	res := r.P.lockDiscipline("wallet", "Service", []string{"wallets", "fingerprints"}, "sync.RWMutex.Lock|sync.RWMutex.RLock", "sync.RWMutex.Unlock|sync.RWMutex.RUnlock")
	sort.Slice(res, func(i, j int) bool { return FnName(res[i].Fn) < FnName(res[j].Fn) })
	for _, lr := range res {
		ok, why := lr.OK, lr.Why
		if !ok && (FnName(lr.Fn) == "wallet.NewService" || FnName(lr.Fn) == "wallet.Service.setWallets" || FnName(lr.Fn) == "wallet.Service.loadWallets") {
			ok, why = true, "reviewed: start-up, before the service is shared"
		}
		r.Check("C19-R5", FnName(lr.Fn)+" accesses Service."+lr.Field+" under the mutex", r.P.Pos(lr.Pos), ok, why)
	}
	r.Min("C19-R5", 12)
}

// posAfter: instruction a comes after instruction b inside block blk.
func posAfter(blk *ssa.BasicBlock, a, b ssa.Instruction) bool {
	ia, ib := -1, -1
	for i, in := range blk.Instrs {
		if in == a {
			ia = i
		}
		if in == b {
			ib = i
		}
	}
	return ia > ib && ib >= 0
}
