package main

import (
	"go/token"
	"strings"

	"golang.org/x/tools/go/ssa"
)

func init() { props["C12"] = checkC12 }

func checkC12(r *Run) {
	r.Explain = "(R5+) the automatic change address is chosen among the owners of all spent outputs, the forced extra input included; C12, structural clauses: (R1) transaction.create returns a transaction only after verifyCreatedUnignedInvariants succeeded on the very transaction and input list it returns; its only tail call re-enters create with the same request; inputs are looked up in the map built from the offered outputs and every pushed input is an element of the chosen spends or of offered-minus-chosen; (R2) the invariant verifier succeeds only when the transaction is unsigned, well formed (VerifyUnsigned), pays each requested output in order (address, coins, and hours when given), has at most one extra (change) output, no null address or zero coins, inputs matching the UxBalances one to one without duplicates, and burns at least the required fee; (R3) ChooseSpends: all success returns are guarded by the same two non-strict sufficiency tests (coins <= have, hours <= RemainingHours(have, user burn factor)), the insufficient-balance error only with have < coins after all candidates, every candidate appended to the result is added to both running sums in the same block, the selection loops have no exits besides exhaustion / sufficiency; (R4) DistributeCoinHoursProportional conserves hours: remaining = hours - assigned under assigned <= hours, each +1 given to an output is paired with a -1 of the remaining counter, success only when the counter reached zero; (R5) in create the requested outputs are pushed for every destination with the requested coins and (manual) requested hours or (auto) the distributed hours of the same index; the change output carries inputs-minus-outputs coins under outputs <= inputs (or the forced extra input's coins, only when change was zero) and remaining-minus-spent hours; fee hours use the user burn factor at every call in the package; (R6) arithmetic in create and the invariant verifier cannot wrap."
	r.NotDec = "optimality of the selection; that DistributeCoinHoursProportional's scaled shares are proportional (big-integer arithmetic); index safety inside DistributeCoinHoursProportional's top-up loops (a violation would panic, not mis-assign); raw += of the running sums in ChooseSpends may wrap for offered sets whose totals exceed 2^64 — create re-sums the chosen spends with checked addition, so a wrapped selection is rejected, not used"
	ruleMathutilIdioms(r, "C12-R1")
	const cr = "transaction.create"
	fn := r.fn("C12-R1", cr)
	if fn == nil {
		return
	}
	ff := r.P.Facts(fn)
	const UXB = "transaction.NewUxBalances(coin.AddressUxOuts.Flatten($1), $2)#0"
	// the balance records the creation works on are the offered outputs with the hours they have accrued at the head
	// time: an output whose hours cannot be computed is an error, never a substituted value
	r.RequireOnSuccess("C12-R7", "transaction.NewUxBalance", req("accrued hours computed", "ok(coin.UxOut.CoinHours($1, $0))"))
	if nb := r.fn("C12-R7", "transaction.NewUxBalance"); nb != nil {
		fs := r.fieldStores(nb)
		for f, want := range map[string]string{"Hash": "coin.UxOut.Hash($1)", "Coins": "$1.Body.Coins", "Hours": "coin.UxOut.CoinHours($1, $0)#0", "InitialHours": "$1.Body.Hours", "Address": "$1.Body.Address"} {
			r.Check("C12-R7", "transaction.NewUxBalance: "+f+" = "+want, r.P.Pos(nb.Pos()), fs[f] == want, "stores "+fs[f])
		}
	}
	r.RequireOnSuccess("C12-R7", "transaction.NewUxBalances",
		req("every offered output converted", "forall(i < len($0)): ok(transaction.NewUxBalance($1, $0[i]))"))
	r.RequireStore("C12-R7", "transaction.NewUxBalances", "slot i holds the balance of output i", "make([]transaction.UxBalance, len($0))[i] := transaction.NewUxBalance($1, $0[i])#0")
	// R1
	// the share-factor retry re-enters create: its success is the callee's success (induction on callCount <= 1)
	r.RequireOnSuccessExcept("C12-R1", cr, []string{"ok(transaction.create($0, $1, $2, 1)*"},
		req("request validated", "ok(transaction.Params.Validate($0))"),
		req("offered outputs converted", "ok(transaction.NewUxBalances(coin.AddressUxOuts.Flatten($1), $2))"),
		req("spends chosen from the offered outputs for the requested totals", "ok(transaction.ChooseSpendsMinimizeUxOuts("+UXB+", fold[acc=0; util/mathutil.AddUint64(acc, $0.To[i].Coins)#0], fold[acc=0; util/mathutil.AddUint64(acc, $0.To[i].Hours)#0]))"),
		req("every transaction input found among the offered outputs", "forall(i < len(*.In)): lookup(set{"+UXB+"[i].Hash}[*.In[i]])#1"),
		req("header updated", "ok(coin.Transaction.UpdateHeader(*))"),
		req("invariants verified", "ok(transaction.verifyCreatedUnignedInvariants($0, *))"))
	for _, e := range ff.Exits() {
		if e.Ret == nil {
			continue
		}
		switch e.Kind {
		case ExitSuccess:
			ret := e.Ret
			ok := false
			for _, cs := range r.CallSites(fn, "transaction.verifyCreatedUnignedInvariants") {
				a := cs.Common().Args
				if len(ret.Results) == 3 && a[1] == ret.Results[0] && a[2] == ret.Results[1] {
					ok = true
				}
			}
			r.Check("C12-R1", cr+": the returned transaction and inputs are the values that were verified", r.P.Pos(ret.Pos()), ok, "")
		case ExitTail:
			t := ff.Term(e.Ret.Results[2])
			r.Check("C12-R1", cr+": the only tail call is the share-factor-1.0 retry of the same request", r.P.Pos(e.Ret.Pos()), strings.HasPrefix(t, "transaction.create($0, $1, $2, 1)"), t)
		}
	}
	nIn := 0
	for _, cs := range r.CallSites(fn, "coin.Transaction.PushInput") {
		nIn++
		t := ff.Term(cs.Common().Args[1])
		ok := glob("transaction.ChooseSpendsMinimizeUxOuts("+UXB+", *)#0[i].Hash", t) || glob("transaction.uxBalancesSub("+UXB+", transaction.ChooseSpendsMinimizeUxOuts("+UXB+", *)#0)[0].Hash", t)
		r.Check("C12-R1", cr+": pushed input is a chosen spend or an offered output that was not chosen", r.P.Pos(cs.Pos()), ok, trunc(t, 200))
	}
	r.Check("C12-R1", cr+": PushInput sites", "", nIn == 2, "")
	if f2 := r.fn("C12-R1", "transaction.uxBalancesSub"); f2 != nil {
		f2f := r.P.Facts(f2)
		n := 0
		for _, b := range f2.Blocks {
			for _, in := range b.Instrs {
				if c, ok := in.(*ssa.Call); ok && calleeName(&c.Call) == "append" {
					n++
					has := false
					for _, a := range f2f.Must(b) {
						if glob("!lookup(set{$1[i].Hash}[$0[i].Hash])#1", a.S) {
							has = true
						}
					}
					r.Check("C12-R1", "transaction.uxBalancesSub: an element is kept only when its hash is not in the second list", r.P.Pos(c.Pos()), has, "")
				}
			}
		}
		r.Check("C12-R1", "transaction.uxBalancesSub: append sites", "", n == 1, "")
		for _, b := range f2.Blocks {
			if ret, ok := b.Instrs[len(b.Instrs)-1].(*ssa.Return); ok {
				t := f2f.Term(ret.Results[0])
				r.Check("C12-R1", "transaction.uxBalancesSub: the result holds only elements of the first list", r.P.Pos(ret.Pos()), glob("fold[acc=nil; *append(acc, [$0[i]])*]", t), t)
			}
		}
	}
	// R2
	r.RequireOnSuccess("C12-R2", "transaction.verifyCreatedUnignedInvariants",
		req("fully unsigned", "coin.Transaction.IsFullyUnsigned($1)"),
		req("well formed", "ok(coin.Transaction.VerifyUnsigned($1))"),
		req("matches the request", "ok(transaction.VerifyCreatedInvariants($0, $1, $2))"))
	const O = "$1.Out[:len($0.To)][i]"
	r.RequireOnSuccess("C12-R2", "transaction.VerifyCreatedInvariants",
		req("no null output address", "forall(i < len($1.Out)): !cipher.Address.Null($1.Out[i].Address)"),
		req("no zero-coin output", "forall(i < len($1.Out)): $1.Out[i].Coins != 0"),
		req("at most one extra output", "when: len($1.Out) != len($0.To) => len($1.Out) == (len($0.To) + 1)"),
		req("requested address paid", "forall(i < len($1.Out[:len($0.To)])): "+O+".Address == $0.To[i].Address"),
		req("requested coins paid exactly", "forall(i < len($1.Out[:len($0.To)])): "+O+".Coins == $0.To[i].Coins"),
		req("requested hours paid exactly when given", "forall(i < len($1.Out[:len($0.To)])): $0.To[i].Hours != 0 => "+O+".Hours == $0.To[i].Hours"),
		req("one signature slot per input", "len($1.Sigs) == len($1.In)"),
		req("one UxBalance per input", "len($1.In) == len($2)"),
		req("inputs are the given UxBalances in order", "forall(i < len($1.In)): $2[i].Hash == $1.In[i]"),
		req("no duplicate input", "forall(i < len($2)): !lookup(set{$2[i].Hash}[$2[i].Hash])#1"),
		req("input hours summed with overflow check", "forall(i < len($2)): ok(util/mathutil.AddUint64(fold[acc=0; util/mathutil.AddUint64(acc, $2[i].Hours)#0], $2[i].Hours))"),
		req("output hours summed with overflow check", "forall(i < len($1.Out)): ok(util/mathutil.AddUint64(fold[acc=0; util/mathutil.AddUint64(acc, $1.Out[i].Hours)#0], $1.Out[i].Hours))"),
		req("outputs do not create hours", "fold[acc=0; util/mathutil.AddUint64(acc, $1.Out[i].Hours)#0] <= fold[acc=0; util/mathutil.AddUint64(acc, $2[i].Hours)#0]"),
		req("burns at least the required fee", "util/fee.RequiredFee(fold[acc=0; util/mathutil.AddUint64(acc, $2[i].Hours)#0], params.UserVerifyTxn.BurnFactor) <= (fold[acc=0; util/mathutil.AddUint64(acc, $2[i].Hours)#0] - fold[acc=0; util/mathutil.AddUint64(acc, $1.Out[i].Hours)#0])"))
	c12ChooseSpends(r)
	c12Distribute(r)
	// R5 outputs
	nOut := 0
	for _, cs := range r.CallSites(fn, "coin.Transaction.PushOutput") {
		nOut++
		a := cs.Common().Args
		t1, t2, t3 := ff.Term(a[1]), ff.Term(a[2]), ff.Term(a[3])
		lp := ff.innermost[cs.Block()]
		must := ff.MustAt(cs)
		has := func(p string) bool {
			for _, at := range must {
				if glob(p, at.S) {
					return true
				}
			}
			return false
		}
		switch {
		case t1 == "$0.To[i].Address":
			ok := t2 == "$0.To[i].Coins" && t3 == "$0.To[i].Hours" && lp != nil && ff.loopSpace(lp) == "i < len($0.To)" && ff.everyIteration(cs.Block(), lp) && has(`$0.HoursSelection.Type == "manual"`)
			r.Check("C12-R5", cr+": manual mode pushes every destination with its requested coins and hours", r.P.Pos(cs.Pos()), ok, t2+" / "+t3)
		case strings.HasPrefix(t1, "$0.To[i]{Hours: "):
			const D = "transaction.DistributeCoinHoursProportional(make([]uint64, len($0.To)), util/mathutil.Int64ToUint64(decimal.Decimal.IntPart(decimal.Decimal.Mul($0.HoursSelection.ShareFactor, decimal.New(util/mathutil.Uint64ToInt64((* - util/fee.RequiredFee(*)))#0, 0))))#0)#0[i]"
			ok := glob("$0.To[i]{Hours: *}.Address", t1) && glob("$0.To[i]{Hours: *}.Coins", t2) && glob(D, t3) && lp != nil && ff.loopSpace(lp) == "i < len($0.To)" && ff.everyIteration(cs.Block(), lp)
			r.Check("C12-R5", cr+": auto mode pushes every destination with its requested coins and the distributed hours of the same index, distributing share x remaining hours", r.P.Pos(cs.Pos()), ok, trunc(t3, 200))
		default:
			const TI = "fold[acc*=0; util/mathutil.AddUint64(acc*, transaction.ChooseSpendsMinimizeUxOuts(*)#0[i].Coins)#0]"
			const TO = "fold[acc*=0; util/mathutil.AddUint64(acc*, $0.To[i].Coins)#0]"
			okA := glob("φ($0.ChangeAddress|cipher.AddressFromBytes(*[0])#0)", t1)
			okC := glob("φ(("+TI+" - "+TO+")|transaction.uxBalancesSub(*)[0].Coins)", t2)
			okH := glob("φ(((* - util/fee.RequiredFee(*, params.UserVerifyTxn.BurnFactor)) - coin.Transaction.OutputHours(*)#0)|util/mathutil.AddUint64(((* - util/fee.RequiredFee(*)) - coin.Transaction.OutputHours(*)#0), (transaction.uxBalancesSub(*)[0].Hours - (util/fee.RequiredFee(util/mathutil.AddUint64(*, transaction.uxBalancesSub(*)[0].Hours)#0, params.UserVerifyTxn.BurnFactor) - util/fee.RequiredFee(*))))#0)", t3)
			r.Check("C12-R5", cr+": change goes to the requested change address or the first sorted spend address", r.P.Pos(cs.Pos()), okA, trunc(t1, 200))
			r.Check("C12-R5", cr+": change coins = input coins - requested coins (or the forced extra input's coins)", r.P.Pos(cs.Pos()), okC, trunc(t2, 300))
			r.Check("C12-R5", cr+": change hours = remaining hours - output hours (plus the extra input's hours net of its additional fee)", r.P.Pos(cs.Pos()), okH, trunc(t3, 300))
			r.Check("C12-R5", cr+": change output only when change coins > 0", r.P.Pos(cs.Pos()), has("0 < φ(*"), "")
			r.Check("C12-R5", cr+": the subtraction is guarded by requested coins <= input coins", r.P.Pos(cs.Pos()), has(strings.ReplaceAll(TO, "acc*", "acc")+" <= "+strings.ReplaceAll(TI, "acc*", "acc")), "")
			r.Check("C12-R5", cr+": the hour subtraction is guarded by output hours <= remaining hours", r.P.Pos(cs.Pos()), has("coin.Transaction.OutputHours(*)#0 <= (* - util/fee.RequiredFee(*))"), "")
			// the extra-input edge is taken only when the plain change was zero
			if phi, ok := a[2].(*ssa.Phi); ok {
				for i, e := range phi.Edges {
					if glob("transaction.uxBalancesSub(*)[0].Coins", ff.Term(e)) {
						z := false
						for _, at := range ff.Must(phi.Block().Preds[i]) {
							if glob("("+strings.ReplaceAll(TI, "acc*", "acc")+" - "+strings.ReplaceAll(TO, "acc*", "acc")+") == 0", at.S) {
								z = true
							}
						}
						r.Check("C12-R5", cr+": the extra input replaces the change only when inputs - outputs was zero", r.P.Pos(phi.Pos()), z, "")
					}
				}
			} else {
				r.Fail("C12-R5", cr+": change coins φ", r.P.Pos(cs.Pos()), "anchor-unresolved")
			}
		}
	}
	// the automatic change address is chosen among the owners of ALL spent outputs, the forced extra input included
	var extraAppend *ssa.Call
	for _, cs := range r.CallSites(fn, "coin.Transaction.PushInput") {
		if !glob("transaction.uxBalancesSub(*)[0].Hash", ff.Term(cs.Common().Args[1])) {
			continue
		}
		for _, in := range cs.Block().Instrs {
			if c, ok := in.(*ssa.Call); ok && calleeName(&c.Call) == "append" && strings.Contains(typeShort(c.Type()), "UxBalance") {
				extraAppend = c
			}
		}
		// the append may sit in a dominating block of the push
		if extraAppend == nil {
			for d := cs.Block().Idom(); d != nil && extraAppend == nil; d = d.Idom() {
				for _, in := range d.Instrs {
					if c, ok := in.(*ssa.Call); ok && calleeName(&c.Call) == "append" && strings.Contains(typeShort(c.Type()), "UxBalance") && glob("*[transaction.uxBalancesSub(*)[0]])", ff.Term(c)) {
						extraAppend = c
					}
				}
			}
		}
	}
	r.Check("C12-R5", cr+": the forced extra input is appended to the spends", r.P.Pos(fn.Pos()), extraAppend != nil, "")
	nAddr := 0
	// the owner collection may live in create itself or in a single-use helper it calls (then the helper's
	// parameter is mapped back to the argument create passes)
	type ownerScan struct {
		fn   *ssa.Function
		site ssa.CallInstruction // call in create (nil when fn is create)
	}
	scans := []ownerScan{{fn, nil}}
	for _, b := range fn.Blocks {
		for _, in := range b.Instrs {
			if ci, ok := in.(ssa.CallInstruction); ok {
				if h := ci.Common().StaticCallee(); h != nil && r.P.singleUse(h) {
					scans = append(scans, ownerScan{h, ci})
				}
			}
		}
	}
	for _, sc := range scans {
		sff := r.P.Facts(sc.fn)
		for _, st := range sff.StoreFacts() {
			sto, ok := st.In.(*ssa.Store)
			if !ok {
				continue
			}
			call, ok := sto.Val.(*ssa.Call)
			if !ok || calleeName(&call.Call) != "cipher.Address.Bytes" {
				continue
			}
			nAddr++
			// the slice whose owners are collected
			var X ssa.Value
			var walkv func(v ssa.Value, d int)
			walkv = func(v ssa.Value, d int) {
				if d > 6 || X != nil {
					return
				}
				switch x := v.(type) {
				case *ssa.UnOp:
					walkv(x.X, d+1)
				case *ssa.FieldAddr:
					walkv(x.X, d+1)
				case *ssa.Field:
					walkv(x.X, d+1)
				case *ssa.IndexAddr:
					X = x.X
				case *ssa.Alloc:
					// range value spilled to a local: follow the store in the same block
					for _, rf := range *x.Referrers() {
						if s2, ok := rf.(*ssa.Store); ok && s2.Addr == x && s2.Block() == sto.Block() {
							walkv(s2.Val, d+1)
						}
					}
				}
			}
			walkv(call.Call.Args[0], 0)
			if prm, ok := X.(*ssa.Parameter); ok && sc.site != nil {
				for i, pp := range sc.fn.Params {
					if pp == prm && i < len(sc.site.Common().Args) {
						X = sc.site.Common().Args[i]
					}
				}
			}
			reaches := false
			seen := map[ssa.Value]bool{}
			var up func(v ssa.Value)
			up = func(v ssa.Value) {
				if v == nil || seen[v] {
					return
				}
				seen[v] = true
				if v == ssa.Value(extraAppend) {
					reaches = true
				}
				if ph, ok := v.(*ssa.Phi); ok {
					for _, e := range ph.Edges {
						up(e)
					}
				}
			}
			up(X)
			lp := sff.innermost[sto.Block()]
			r.Check("C12-R5", cr+": the automatic change address is chosen among the owners of all spends including the forced extra input", r.P.Pos(sto.Pos()), X != nil && extraAppend != nil && reaches && lp != nil && sff.everyIteration(sto.Block(), lp), "the owner list ranges over "+trunc(ff.Term(X), 120))
		}
	}
	r.Check("C12-R5", cr+": owner-collection sites", "", nAddr == 1, "")
	r.Check("C12-R5", cr+": PushOutput sites", "", nOut == 3, "")
	r.RequireStore("C12-R5", cr, "the coins handed to the distributor are the requested coins, index by index", "make([]uint64, len($0.To))[i] := $0.To[i].Coins")
	// fee: remaining = total - RequiredFee(total, user burn factor) with the same total; user burn factor at every call in the package
	nFee := 0
	for _, f := range r.P.ModFns {
		if !strings.HasPrefix(FnName(f), "transaction.") {
			continue
		}
		f2 := r.P.Facts(f)
		for _, b := range f.Blocks {
			for _, in := range b.Instrs {
				c, ok := in.(*ssa.Call)
				if !ok {
					continue
				}
				n := calleeName(&c.Call)
				if n != "util/fee.RequiredFee" && n != "util/fee.RemainingHours" {
					continue
				}
				nFee++
				r.Check("C12-R5", FnName(f)+": "+n+" uses the user burn factor", r.P.Pos(c.Pos()), f2.Term(c.Call.Args[1]) == "params.UserVerifyTxn.BurnFactor", f2.Term(c.Call.Args[1]))
				for _, rf := range *c.Referrers() {
					if bo, ok := rf.(*ssa.BinOp); ok && bo.Op == token.SUB && bo.Y == c && n == "util/fee.RequiredFee" && !isCallTo(bo.X, "util/fee.RequiredFee") {
						r.Check("C12-R6", FnName(f)+": hours - RequiredFee(hours) subtracts the fee of the same hours (ceil(h/b) <= h)", r.P.Pos(bo.Pos()), bo.X == c.Call.Args[0], f2.Term(bo))
					}
				}
			}
		}
	}
	r.Check("C12-R5", "fee call sites in package transaction", "", nFee >= 6, "")
	r.ReturnShape("C12-R6", "util/fee.RequiredFee", 0,
		ShapeCase{"($0 % uint64($1)) != 0", "(($0 / uint64($1)) + 1)"},
		ShapeCase{"($0 % uint64($1)) == 0", "($0 / uint64($1))"})
	// R6
	for _, ref := range []string{cr, "transaction.VerifyCreatedInvariants"} {
		f := r.fn("C12-R6", ref)
		if f == nil {
			continue
		}
		f2 := r.P.Facts(f)
		for _, s := range f2.ArithSites() {
			if bo, ok := s.In.(*ssa.BinOp); ok && bo.Op == token.SUB {
				if c, ok := bo.Y.(*ssa.Call); ok && calleeName(&c.Call) == "util/fee.RequiredFee" && bo.X == c.Call.Args[0] {
					continue // decided by the shape rule above
				}
			}
			r.Check("C12-R6", ref+": "+s.Kind+" "+trunc(s.Expr, 110), r.P.Pos(s.In.Pos()), s.OK, s.Why)
		}
	}
	// the chosen spends are re-summed with checked addition, every one of them
	nSum := 0
	for _, cs := range r.CallSites(fn, "util/mathutil.AddUint64") {
		t := ff.Term(cs.Common().Args[1])
		if !glob("transaction.ChooseSpendsMinimizeUxOuts(*)#0[i].*", t) {
			continue
		}
		nSum++
		lp := ff.innermost[cs.Block()]
		r.Check("C12-R6", cr+": every chosen spend's "+t[strings.LastIndex(t, ".")+1:]+" is re-summed with checked addition", r.P.Pos(cs.Pos()), lp != nil && ff.everyIteration(cs.Block(), lp) && glob("i < len(transaction.ChooseSpendsMinimizeUxOuts(*)#0)", ff.loopSpace(lp)), "")
	}
	r.Check("C12-R6", cr+": checked re-summation sites", "", nSum == 2, "")
}

func isCallTo(v ssa.Value, name string) bool {
	c, ok := v.(*ssa.Call)
	return ok && calleeName(&c.Call) == name
}

func c12ChooseSpends(r *Run) {
	const cs = "transaction.ChooseSpends"
	fn := r.fn("C12-R3", cs)
	if fn == nil {
		return
	}
	ff := r.P.Facts(fn)
	nS := 0
	for _, e := range ff.Exits() {
		has := func(p string) bool {
			for _, a := range ff.Must(e.Block) {
				if glob(p, a.S) {
					return true
				}
			}
			return false
		}
		t := ""
		if e.Ret == nil {
			continue
		}
		if len(e.Ret.Results) == 2 {
			t = ff.Term(e.Ret.Results[1])
		}
		switch {
		case e.Kind == ExitSuccess:
			nS++
			r.Check("C12-R3", cs+": success only with requested coins <= chosen coins (non-strict, like its siblings)", r.P.Pos(e.Ret.Pos()), has("$1 <= *"), "")
			r.Check("C12-R3", cs+": success only with requested hours <= RemainingHours(chosen hours, user burn factor) (non-strict, like its siblings)", r.P.Pos(e.Ret.Pos()), has("$2 <= util/fee.RemainingHours(*, params.UserVerifyTxn.BurnFactor)"), "")
		case t == "transaction.ErrInsufficientBalance":
			r.Check("C12-R3", cs+": insufficient balance only when chosen coins < requested coins", r.P.Pos(e.Ret.Pos()), has("* < $1"), "")
		case t == "transaction.ErrInsufficientHours":
			r.Check("C12-R3", cs+": insufficient hours only when coins suffice", r.P.Pos(e.Ret.Pos()), has("$1 <= *"), "")
		}
		if t == "transaction.ErrInsufficientBalance" || t == "transaction.ErrInsufficientHours" {
			// reached only after the last selection loop ran out of candidates
			r.Check("C12-R3", cs+": "+t+" only after every candidate was considered", r.P.Pos(e.Ret.Pos()), has("len(*[1:]) <= i"), "")
		}
	}
	r.Check("C12-R3", cs+": success returns", "", nS == 3, "")
	// pairing: every append to the returned slice adds the same element's coins and hours to the sums
	spending := map[ssa.Value]bool{}
	var walk func(v ssa.Value)
	walk = func(v ssa.Value) {
		if spending[v] {
			return
		}
		spending[v] = true
		switch x := v.(type) {
		case *ssa.Phi:
			for _, e := range x.Edges {
				walk(e)
			}
		case *ssa.Call:
			if calleeName(&x.Call) == "append" {
				walk(x.Call.Args[0])
			}
		}
	}
	for _, e := range ff.Exits() {
		if e.Kind == ExitSuccess && e.Ret != nil {
			walk(e.Ret.Results[0])
		}
	}
	nA := 0
	for v := range spending {
		c, ok := v.(*ssa.Call)
		if !ok {
			continue
		}
		nA++
		el := strings.TrimSuffix(strings.TrimPrefix(ff.Term(c.Call.Args[1]), "["), "]")
		coins, hours := false, false
		for _, in := range c.Block().Instrs {
			if bo, ok := in.(*ssa.BinOp); ok && bo.Op == token.ADD {
				y := ff.Term(bo.Y)
				if y == el+".Coins" {
					coins = true
				}
				if y == el+".Hours" {
					hours = true
				}
			}
		}
		r.Check("C12-R3", cs+": a chosen output is added to the coin and hour sums in the same step", r.P.Pos(c.Pos()), coins && hours, "element "+trunc(el, 80))
		okEl := glob("fold[acc=nil; append(acc, [$0[i]])][0]", el) || glob("fold[acc=nil; append(acc, [$0[i]])][i]", el) || glob("fold[acc=nil; append(acc, [$0[i]])][1:][i]", el)
		r.Check("C12-R3", cs+": a chosen output is an element of the offered list's partitions (first non-zero, zero-hour, remaining non-zero)", r.P.Pos(c.Pos()), okEl, trunc(el, 120))
	}
	r.Check("C12-R3", cs+": appends to the result", "", nA == 3, "")
	// loop exits: a selection loop is left only by exhaustion or on a sufficiency test
	for _, lp := range ff.loops {
		inSel := false
		for b := range lp.Blocks {
			for _, in := range b.Instrs {
				if c, ok := in.(*ssa.Call); ok && spending[c] {
					inSel = true
				}
			}
		}
		if !inSel {
			continue
		}
		for b := range lp.Blocks {
			for _, s := range b.Succs {
				if lp.Blocks[s] || b == lp.Header {
					continue
				}
				ok := false
				for _, a := range ff.edgeAtoms(b, s) {
					if glob("$1 <= *", a) || glob("$2 <= util/fee.RemainingHours(*)", a) {
						ok = true
					}
				}
				r.Check("C12-R3", cs+": a selection loop is left early only on a sufficiency test", r.P.Pos(ff.condPos(b)), ok, "")
			}
		}
	}
}

func c12Distribute(r *Run) {
	const d = "transaction.DistributeCoinHoursProportional"
	fn := r.fn("C12-R4", d)
	if fn == nil {
		return
	}
	ff := r.P.Facts(fn)
	const A = "fold[acc*=0; util/mathutil.AddUint64(acc*, big.Int.Uint64(local:big.Int))#0]"
	r.RequireOnSuccess("C12-R4", d,
		req("coins non-empty", "len($0) != 0"),
		req("assigned <= hours before subtracting", strings.ReplaceAll(A, "acc*", "acc")+" <= $1"),
		req("remaining counter reached zero", "fold[acc=fold[acc2=($1 - "+strings.ReplaceAll(A, "acc*", "acc3")+"); φ((acc2 - 1)|acc2)]; (acc - 1)] <= 0"))
	// stores into the result slice
	init, inc, dec := 0, 0, 0
	for _, s := range ff.StoreFacts() {
		m := globCapture("make([]uint64, len($0))[*] := *", s.S)
		if m == nil {
			continue
		}
		idx, val := m[0], m[1]
		blk := s.In.Block()
		hasDec := false
		for _, in := range blk.Instrs {
			if bo, ok := in.(*ssa.BinOp); ok && bo.Op == token.SUB {
				if c, ok := constInt(bo.Y); ok && c.Int64() == 1 && strings.Contains(ff.Term(bo.X), "($1 - fold[") {
					hasDec = true
				}
			}
		}
		switch {
		case val == "big.Int.Uint64(local:big.Int)":
			init++
			paired := false
			for _, in := range blk.Instrs {
				if c, ok := in.(*ssa.Call); ok && calleeName(&c.Call) == "util/mathutil.AddUint64" && ff.Term(c.Call.Args[1]) == val {
					paired = true
				}
			}
			r.Check("C12-R4", d+": each proportional share stored is added to the assigned total in the same step", r.P.Pos(s.In.Pos()), paired && idx == "i", "")
		case val == "1":
			inc++
			z := false
			for _, a := range ff.Must(blk) {
				if a.S == "make([]uint64, len($0))["+idx+"] == 0" {
					z = true
				}
			}
			r.Check("C12-R4", d+": a zero share raised to 1 takes exactly one hour from the remaining counter", r.P.Pos(s.In.Pos()), z && hasDec, "")
		case val == "(make([]uint64, len($0))["+idx+"] + 1)":
			inc++
			r.Check("C12-R4", d+": a share raised by 1 takes exactly one hour from the remaining counter", r.P.Pos(s.In.Pos()), hasDec, "")
		default:
			r.Check("C12-R4", d+": store into the result is one of the conserving forms", r.P.Pos(s.In.Pos()), false, trunc(s.S, 200))
		}
	}
	for _, b := range fn.Blocks {
		for _, in := range b.Instrs {
			if bo, ok := in.(*ssa.BinOp); ok && bo.Op == token.SUB {
				if c, ok := constInt(bo.Y); ok && c.Int64() == 1 && strings.Contains(ff.Term(bo.X), "($1 - fold[") {
					dec++
				}
			}
		}
	}
	r.Check("C12-R4", d+": every decrement of the remaining counter is paired with a +1 on an output (no hours dropped)", r.P.Pos(fn.Pos()), init == 1 && inc == 2 && dec == inc, "")
	// the returned slice is the one written
	for _, e := range ff.Exits() {
		if e.Kind == ExitSuccess && e.Ret != nil {
			r.Check("C12-R4", d+": returns the slice it filled", r.P.Pos(e.Ret.Pos()), ff.Term(e.Ret.Results[0]) == "make([]uint64, len($0))", ff.Term(e.Ret.Results[0]))
		}
	}
}
