package main

import (
	"fmt"
	"golang.org/x/tools/go/ssa"
	"os"
	"sort"
	"strings"
)

type propFunc func(r *Run)

var props = map[string]propFunc{}
var propLevel = map[string]string{}

func usage() {
	fmt.Fprintln(os.Stderr, "usage: skyverif <Cxx> quick|thorough | skyverif dump <fn-ref> | skyverif list")
	os.Exit(2)
}

func main() {
	if len(os.Args) < 2 {
		usage()
	}
	defer func() {
		if e := recover(); e != nil {
			fmt.Fprintf(os.Stderr, "checker panic (no verdict): %v\n", e)
			panic(e)
		}
	}()
	switch os.Args[1] {
	case "list":
		var ids []string
		for k := range props {
			ids = append(ids, k)
		}
		sort.Strings(ids)
		fmt.Println(strings.Join(ids, " "))
		return
	case "buckets":
		p, err := loadEnv()
		if err != nil {
			fmt.Fprintln(os.Stderr, err)
			os.Exit(2)
		}
		for _, w := range p.BucketWrites() {
			fmt.Printf("%-40s %-30s %-50s %s callers=%v\n", w.Bucket, w.Op, FnName(w.Fn), p.Pos(w.Site.Pos()), p.CallerNames(w.Fn))
		}
		return
	case "stores":
		p, err := loadEnv()
		if err != nil {
			fmt.Fprintln(os.Stderr, err)
			os.Exit(2)
		}
		for _, ref := range os.Args[2:] {
			fn := p.Fn(ref)
			if fn == nil {
				fmt.Println("UNRESOLVED", ref)
				continue
			}
			for _, s := range p.Facts(fn).StoreFacts() {
				fmt.Printf("%s: %s\n", p.Pos(s.In.Pos()), s.S)
				if os.Getenv("FACTS") != "" {
					for _, a := range p.Facts(fn).MustAt(s.In) {
						fmt.Printf("        %s\n", a.S)
					}
				}
			}
		}
		return
	case "routes":
		p, err := loadEnv()
		if err != nil {
			os.Exit(2)
		}
		rs, probs := p.extractRoutes()
		for _, r := range rs {
			fmt.Println(routeKey(r))
		}
		for _, x := range probs {
			fmt.Println("PROBLEM", x)
		}
		return
	case "nilsites":
		p, err := loadEnv()
		if err != nil {
			os.Exit(2)
		}
		sites, n, prods := p.NilContractSites()
		fmt.Println("producers:", len(prods), "call sites:", n)
		for _, x := range prods {
			fmt.Println("  producer", x)
		}
		for _, s := range sites {
			if !s.Guarded {
				fmt.Printf("%s: %s derefs %s\n", p.Pos(s.Deref.Pos()), FnName(s.Fn), s.Callee)
			}
		}
		return
	case "bounds":
		p, err := loadEnv()
		if err != nil {
			os.Exit(2)
		}
		tot, bad := 0, 0
		for _, fn := range p.ModFns {
			if !strings.HasPrefix(FnName(fn), os.Args[2]) {
				continue
			}
			for _, s := range p.Facts(fn).BoundSites() {
				tot++
				if os.Getenv("ALL") != "" && s.OK {
					fmt.Printf("%s: OK %s: %s :: %s\n", p.Pos(s.In.Pos()), FnName(fn), trunc(s.Expr, 80), trunc(s.Why, 160))
				}
				if !s.OK {
					bad++
					fmt.Printf("%s: %s: %s :: %s\n", p.Pos(s.In.Pos()), FnName(fn), trunc(s.Expr, 80), trunc(s.Why, 160))
				}
			}
		}
		fmt.Println("total", tot, "undischarged", bad)
		return
	case "multi":
		// skyverif multi <id...|all>: one load, every listed property in turn (no evidence written); exit 1 if any fails
		os.Setenv("VERIF_NO_EVIDENCE", "1")
		overlay, env, err := witnessOverlayFromEnv()
		if err != nil {
			os.Exit(2)
		}
		p, err := Load(overlay, env)
		if err != nil {
			fmt.Fprintln(os.Stderr, "no verdict:", err)
			os.Exit(2)
		}
		ids := os.Args[2:]
		if len(ids) == 1 && ids[0] == "all" {
			ids = nil
			for k := range props {
				ids = append(ids, k)
			}
			sort.Strings(ids)
		}
		worst := 0
		for _, id := range ids {
			f, ok := props[id]
			if !ok {
				continue
			}
			code := func() (code int) {
				defer func() {
					if e := recover(); e != nil {
						fmt.Printf("property %s: checker panic: %v\n", id, e)
						code = 2
					}
				}()
				r := NewRun(id, "quick", p)
				if lv, ok := propLevel[id]; ok {
					r.Level = lv
				}
				f(r)
				return r.Finish()
			}()
			fmt.Printf("MULTI %s rc=%d\n", id, code)
			if code > worst {
				worst = code
			}
		}
		os.Exit(worst)
	case "maporder":
		p, err := loadEnv()
		if err != nil {
			os.Exit(2)
		}
		n, leaks, _ := mapOrderLeaks(p, os.Args[2:]...)
		for _, l := range leaks {
			fmt.Println(l)
		}
		fmt.Println("functions with a map range checked:", n)
		return
	case "fns":
		p, err := loadEnv()
		if err != nil {
			os.Exit(2)
		}
		for _, fn := range p.ModFns {
			if strings.HasPrefix(FnName(fn), os.Args[2]) {
				fmt.Println(FnName(fn))
				if len(os.Args) > 3 {
					dumpFnObj(p, fn)
				}
			}
		}
		return
	case "locks":
		p, err := loadEnv()
		if err != nil {
			os.Exit(2)
		}
		tot := 0
		for _, fn := range p.ModFns {
			n, leaks := p.lockBalance(fn)
			tot += n
			for _, l := range leaks {
				fmt.Printf("%s: %s: %s on %s not released before the exit at %s\n", p.Pos(l.Lock.Pos()), FnName(fn), l.Kind, l.Recv, p.Pos(l.Exit))
			}
		}
		fmt.Println("lock sites", tot)
		return
	case "apimust":
		p, err := loadEnv()
		if err != nil {
			os.Exit(2)
		}
		n := 0
		for _, fn := range p.ModFns {
			if !strings.HasPrefix(FnName(fn), os.Args[2]) {
				continue
			}
			ff := p.Facts(fn)
			for _, b := range fn.Blocks {
				for _, in := range b.Instrs {
					ci, ok := in.(ssa.CallInstruction)
					if !ok {
						continue
					}
					cal := ci.Common().StaticCallee()
					if cal == nil || !InModule(cal) || cal.Blocks == nil {
						continue
					}
					ps := p.explicitPanics(cal)
					if len(ps) == 0 || p.hasRecover(cal) {
						continue
					}
					n++
					var args []string
					for _, a := range ci.Common().Args {
						args = append(args, trunc(ff.Term(a), 50))
					}
					fmt.Printf("%s: %s -> %s(%s)  [%d panic sites: %s]\n", p.Pos(ci.Pos()), FnName(fn), FnName(cal), strings.Join(args, ", "), len(ps), trunc(ps[0].Desc, 60))
				}
			}
		}
		fmt.Println("total", n)
		return
	case "panics":
		p, err := loadEnv()
		if err != nil {
			os.Exit(2)
		}
		roots := p.httpHandlerRoots()
		sites, n := p.reachablePanics(roots)
		fmt.Println("roots", len(roots), "reachable module functions", n, "panic sites", len(sites))
		for _, s := range sites {
			fmt.Printf("%s: %s: %s   [%s]\n", p.Pos(s.In.Pos()), FnName(s.Fn), s.Desc, trunc(s.Path, 200))
		}
		return
	case "callers":
		p, err := loadEnv()
		if err != nil {
			os.Exit(2)
		}
		for _, ref := range os.Args[2:] {
			fn := p.Fn(ref)
			if fn == nil {
				fmt.Println("UNRESOLVED", ref)
				continue
			}
			n := p.CHA().Nodes[fn]
			for _, e := range n.In {
				fmt.Printf("%s <- %s (synthetic=%q) site=%v\n", ref, e.Caller.Func.String(), e.Caller.Func.Synthetic, e.Site)
			}
		}
		return
	case "dump":
		p, err := loadEnv()
		if err != nil {
			fmt.Fprintln(os.Stderr, err)
			os.Exit(2)
		}
		for _, ref := range os.Args[2:] {
			dumpFn(p, ref)
		}
		return
	}
	if len(os.Args) < 3 {
		usage()
	}
	id, tier := os.Args[1], os.Args[2]
	f, ok := props[id]
	if !ok {
		fmt.Fprintf(os.Stderr, "no check for property %s\n", id)
		os.Exit(2)
	}
	if tier != "quick" && tier != "thorough" {
		usage()
	}
	overlay, env, err := witnessOverlayFromEnv()
	if err != nil {
		fmt.Fprintln(os.Stderr, err)
		os.Exit(2)
	}
	p, err := Load(overlay, env)
	if err != nil {
		fmt.Fprintln(os.Stderr, "no verdict:", err)
		os.Exit(2)
	}
	r := NewRun(id, tier, p)
	if lv, ok := propLevel[id]; ok {
		r.Level = lv
	}
	f(r)
	if tier == "thorough" && os.Getenv("VERIF_WITNESS_PATCH") == "" {
		// self-test: the property's rules must fire on every stored witness change (overlay, nothing executed)
		ws := runWitnesses(id)
		r.Extra["witnesses"] = ws
		fired, silent := 0, 0
		for _, w := range ws {
			fmt.Printf("  witness %-40s %s %s\n", w.Patch, w.Result, w.Detail)
			switch w.Result {
			case "fired":
				fired++
			case "silent":
				silent++
			}
		}
		r.Units["witness changes fired"] = fired
		// and must stay silent on the stored behaviour-preserving edits
		bs := runBenign(id)
		r.Extra["benign_edits"] = bs
		quiet, alarms := 0, 0
		for _, b := range bs {
			fmt.Printf("  benign  %-40s %s %s\n", b.Patch, b.Result, b.Detail)
			switch b.Result {
			case "quiet":
				quiet++
			case "false-alarm":
				alarms++
			}
		}
		r.Units["behaviour-preserving edits left quiet"] = quiet
		code := r.Finish()
		if code == 0 && alarms > 0 {
			fmt.Fprintf(os.Stderr, "SELFTEST-FAILED: %d stored behaviour-preserving edit(s) made the rules of %s fire: false alarm, no verdict\n", alarms, id)
			os.Exit(2)
		}
		if code == 0 && silent > 0 {
			fmt.Fprintf(os.Stderr, "SELFTEST-FAILED: %d stored witness change(s) that break %s were not reported: the rule set is blind, no verdict\n", silent, id)
			os.Exit(2)
		}
		os.Exit(code)
	}
	os.Exit(r.Finish())
}

func dumpFn(p *Program, ref string) {
	fn := p.Fn(ref)
	if fn == nil {
		fmt.Println("UNRESOLVED", ref)
		return
	}
	dumpFnObj(p, fn)
}

func dumpFnObj(p *Program, fn *ssa.Function) {
	ff := p.Facts(fn)
	fmt.Printf("== %s (%s) blocks=%d loops=%d\n", FnName(fn), p.Pos(fn.Pos()), len(fn.Blocks), len(ff.loops))
	for _, lp := range ff.loops {
		for _, lt := range lp.Latches {
			fmt.Printf("-- loop (%s) latch block %d\n", ff.loopSpace(lp), lt.Index)
			for _, a := range ff.Must(lt) {
				fmt.Printf("     %s\n", a.S)
			}
			for _, a := range ff.edgeAtoms(lt, lp.Header) {
				fmt.Printf("     + %s\n", a)
			}
		}
	}
	for _, ex := range ff.Exits() {
		kind := [...]string{"SUCCESS", "REJECT", "TAIL", "PANIC", "UNKNOWN"}[ex.Kind]
		fmt.Printf("-- exit %s block %d at %s returns %s\n", kind, ex.Block.Index, p.Pos(ex.Pos), trunc(ex.Desc, 120))
		for _, a := range ff.Must(ex.Block) {
			fmt.Printf("     %s   [%s]\n", a.S, p.Pos(a.Pos))
		}
		for _, e := range ex.Extra {
			fmt.Printf("     + %s\n", e)
		}
	}
}

// loadEnv loads /repo, with the overlay of VERIF_WITNESS_PATCH when set (debug commands see the patched tree too).
func loadEnv() (*Program, error) {
	overlay, env, err := witnessOverlayFromEnv()
	if err != nil {
		return nil, err
	}
	return Load(overlay, env)
}
