package main

import (
	"fmt"
	"go/token"
	"go/types"
	"math"
	"math/big"
	"os"
	"regexp"
	"strings"

	"golang.org/x/tools/go/ssa"
)

// Bounds obligations (engine E13): every slice / index expression of a designated
// function is an obligation 0 <= lo <= hi <= len.  Decided with a small
// difference-bound reasoner: quantities are "atom + constant" (atoms = normalised
// terms), facts are x - y <= c, a query is a shortest-path question.  Facts come from
// dominating comparisons (E3), loop headers, non-negativity of lengths and unsigned
// values, intervals (E7) and a table of callee contracts.

type lin struct {
	atom string // "" = the constant zero
	c    int64
	ok   bool
}

const dbmInf = math.MaxInt64 / 4

type dbm struct {
	idx  map[string]int
	d    [][]int64
	done bool
	raw  []string
}

func newDBM() *dbm {
	m := &dbm{idx: map[string]int{"": 0}}
	m.d = [][]int64{{0}}
	return m
}

func (m *dbm) node(a string) int {
	if i, ok := m.idx[a]; ok {
		return i
	}
	n := len(m.d)
	m.idx[a] = n
	for i := range m.d {
		m.d[i] = append(m.d[i], dbmInf)
	}
	row := make([]int64, n+1)
	for i := range row {
		row[i] = dbmInf
	}
	row[n] = 0
	m.d = append(m.d, row)
	m.done = false
	return n
}

// add records x - y <= c.
func (m *dbm) add(x, y string, c int64) {
	if c >= dbmInf || c <= -dbmInf {
		return // outside the representable band: dropping a fact is sound
	}
	i, j := m.node(x), m.node(y)
	if os.Getenv("DBMDEBUG") != "" {
		m.raw = append(m.raw, fmt.Sprintf("%s - %s <= %d", trunc(x, 70), trunc(y, 70), c))
	}
	if c < m.d[i][j] {
		m.d[i][j] = c
		m.done = false
	}
}

func (m *dbm) close() {
	if m.done {
		return
	}
	n := len(m.d)
	for k := 0; k < n; k++ {
		for i := 0; i < n; i++ {
			if m.d[i][k] >= dbmInf {
				continue
			}
			for j := 0; j < n; j++ {
				if m.d[k][j] >= dbmInf {
					continue
				}
				s := m.d[i][k] + m.d[k][j]
				if s < -dbmInf {
					s = -dbmInf // clamp (weaker, sound); also keeps later sums from overflowing
				}
				if s < m.d[i][j] {
					m.d[i][j] = s
				}
			}
		}
	}
	m.done = true
}

// inconsistent: the recorded constraints have no solution (negative cycle).
func (m *dbm) inconsistent() bool {
	m.close()
	for i := range m.d {
		if m.d[i][i] < 0 {
			if os.Getenv("DBMDEBUG") != "" {
				fmt.Println("INCONSISTENT; raw edges:")
				for _, e := range m.raw {
					fmt.Println("    ", e)
				}
			}
			return true
		}
	}
	return false
}

// entails: x - y <= c ?
func (m *dbm) entails(x, y string, c int64) bool {
	i, j := m.node(x), m.node(y)
	m.close()
	if os.Getenv("DBMDEBUG") != "" {
		names := make([]string, len(m.d))
		for k, v := range m.idx {
			names[v] = k
		}
		fmt.Printf("ENTAILS? %s - %s <= %d : have %d\n", trunc(x, 60), trunc(y, 60), c, m.d[i][j])
		for a := range m.d {
			for b := range m.d {
				if a != b && m.d[a][b] < dbmInf {
					fmt.Printf("     %s - %s <= %d\n", trunc(names[a], 50), trunc(names[b], 50), m.d[a][b])
				}
			}
		}
	}
	return m.d[i][j] <= c
}

// linearize renders v as atom + const.
func (ff *FuncFacts) linearize(v ssa.Value, depth int) lin {
	if c, ok := constInt(v); ok && c.IsInt64() {
		return lin{"", c.Int64(), true}
	}
	if depth > 8 {
		return lin{ff.Term(v), 0, true}
	}
	switch x := v.(type) {
	case *ssa.BinOp:
		if _, ind := ff.inductionAlias[x]; ind {
			return lin{ff.Term(v), 0, true}
		}
		if (x.Op == token.ADD || x.Op == token.SUB) && ff.noWrap(x, depth) {
			a, b := ff.linearize(x.X, depth+1), ff.linearize(x.Y, depth+1)
			if a.ok && b.ok {
				if b.atom == "" {
					if x.Op == token.ADD {
						return lin{a.atom, a.c + b.c, true}
					}
					return lin{a.atom, a.c - b.c, true}
				}
				if a.atom == "" && x.Op == token.ADD {
					return lin{b.atom, a.c + b.c, true}
				}
			}
		}
	case *ssa.Convert:
		// integer conversions that cannot change the value for the ranges we meet
		// (lengths, small counts): treat as transparent when the operand's interval
		// fits the target type
		if tr, ok := typeRange(x.Type()); ok {
			if _, ok2 := typeRange(x.X.Type()); ok2 {
				iv := ff.rangeOf(x.X, x.Block(), depth)
				if within(iv, tr) {
					return ff.linearize(x.X, depth+1)
				}
			}
		}
	case *ssa.ChangeType:
		return ff.linearize(x.X, depth+1)
	case *ssa.Call:
		if b, ok := x.Call.Value.(*ssa.Builtin); ok && b.Name() == "len" {
			return ff.lenLin(x.Call.Args[0], depth)
		}
		if a, ok := ff.lenGetter(x); ok {
			return lin{a, 0, true}
		}
	}
	return lin{ff.Term(v), 0, true}
}

// noWrap: the machine result of x (ADD/SUB) equals the mathematical one.  Signed 64-bit
// arithmetic on lengths and indexes is taken not to wrap (a slice cannot be that long);
// every other type needs an interval proof.
func (ff *FuncFacts) noWrap(x *ssa.BinOp, depth int) bool {
	if b, ok := x.Type().Underlying().(*types.Basic); ok && (b.Kind() == types.Int || b.Kind() == types.Int64) {
		return true
	}
	tr, ok := typeRange(x.Type())
	if !ok {
		return false
	}
	a, c := ff.rangeOf(x.X, x.Block(), depth+1), ff.rangeOf(x.Y, x.Block(), depth+1)
	var lo, hi *big.Int
	if x.Op == token.ADD {
		lo, hi = new(big.Int).Add(a.Lo, c.Lo), new(big.Int).Add(a.Hi, c.Hi)
	} else {
		lo, hi = new(big.Int).Sub(a.Lo, c.Hi), new(big.Int).Sub(a.Hi, c.Lo)
	}
	return within(Interval{lo, hi}, tr)
}

// lenLin: linear form of len(arg): len(X[lo:]) = len(X) - lo ; len(X[lo:hi]) = hi - lo ;
// len(make(T, n)) = n ; arrays are constant.
func (ff *FuncFacts) lenLin(arg ssa.Value, depth int) lin {
	if sl, ok := arg.(*ssa.Slice); ok {
		lo := lin{"", 0, true}
		if sl.Low != nil {
			lo = ff.linearize(sl.Low, depth+1)
		}
		if lo.ok && lo.atom == "" {
			if sl.High == nil {
				if _, isArr := derefArray(sl.X.Type()); !isArr {
					base := ff.lenLin(sl.X, depth+1)
					if base.ok {
						return lin{base.atom, base.c - lo.c, true}
					}
				}
			} else {
				hi := ff.linearize(sl.High, depth+1)
				if hi.ok {
					return lin{hi.atom, hi.c - lo.c, true}
				}
			}
		}
	}
	if arr, ok := derefArray(arg.Type()); ok {
		return lin{"", arr.Len(), true}
	}
	if mk, ok := arg.(*ssa.MakeSlice); ok {
		return ff.linearize(mk.Len, depth+1) // len(make(T, n)) == n
	}
	return lin{ff.lenAtom(arg), 0, true}
}

func (ff *FuncFacts) lenAtom(x ssa.Value) string { return "len(" + ff.Term(x) + ")" }

// madeLen: x is a load of a field of a local struct whose only store to that field
// is a make([]T, n): returns n.
func (ff *FuncFacts) madeLen(x ssa.Value) (ssa.Value, bool) {
	ld, ok := x.(*ssa.UnOp)
	if !ok || ld.Op != token.MUL {
		return nil, false
	}
	fa, ok := ld.X.(*ssa.FieldAddr)
	if !ok {
		return nil, false
	}
	a, ok := fa.X.(*ssa.Alloc)
	if !ok {
		return nil, false
	}
	var mk *ssa.MakeSlice
	n := 0
	for _, rf := range *a.Referrers() {
		f2, ok := rf.(*ssa.FieldAddr)
		if !ok || f2.Field != fa.Field {
			continue
		}
		for _, rr := range *f2.Referrers() {
			if st, ok := rr.(*ssa.Store); ok && st.Addr == f2 {
				n++
				mk, _ = st.Val.(*ssa.MakeSlice)
			}
		}
	}
	if n == 1 && mk != nil {
		return mk.Len, true
	}
	return nil, false
}

// contracts: relations between the results / arguments of callees that the bounds
// reasoner may assume.  Each entry was confirmed by reading the callee.
//
//	result index -> (upper bound = len(arg k))
var lenContracts = map[string]map[int]int{
	"cipher/encoder.DeserializeString": {1: 0}, // consumed bytes <= len(in)
	"cipher/encoder.DeserializeAtomic": {0: 0},
	"cipher/encoder.DeserializeRaw":    {0: 0},
	"cipher/encoder.DeserializeUint32": {1: 0},
	"copy":                             {0: 0}, // n <= len(dst)
	"base64.Encoding.Decode":           {0: 1}, // bytes written <= len(dst) (stdlib: writes into dst, panics rather than overrun)
}

// relContracts: ordering relations between results (r<k>) and arguments (a<k>) of a
// callee on its success return.  Each entry is justified by obligations checked
// elsewhere in the same run (named in the comment).
type relContract struct{ lo, hi string } // lo <= hi

var relContracts = map[string][]relContract{
	// C29-R2 return shapes: end = min(start+size, n) and start = size*(page-1) < n
	"visor.PageIndex.Cal": {{"r0", "r1"}, {"r1", "a1"}},
}

var lenGetterRe = regexp.MustCompile(`^(?:uint64|int|uint32)\(len\(\$(\d+)((?:\.[A-Za-z_][A-Za-z_0-9]*)+)\)\)$`)

// lenGetter: callee whose single return is <conv>(len(<param>.<fields>)).
func (ff *FuncFacts) lenGetter(c *ssa.Call) (string, bool) {
	f := c.Call.StaticCallee()
	if f == nil || f.Blocks == nil || len(f.Blocks) != 1 || !InModule(f) {
		return "", false
	}
	ret, ok := f.Blocks[0].Instrs[len(f.Blocks[0].Instrs)-1].(*ssa.Return)
	if !ok || len(ret.Results) != 1 {
		return "", false
	}
	m := lenGetterRe.FindStringSubmatch(ff.P.Facts(f).Term(ret.Results[0]))
	if m == nil {
		return "", false
	}
	var k int
	fmt.Sscanf(m[1], "%d", &k)
	if k >= len(c.Call.Args) {
		return "", false
	}
	return "len(" + ff.Term(c.Call.Args[k]) + m[2] + ")", true
}

// factsAt builds the DBM valid at block B.
func (ff *FuncFacts) factsAt(B *ssa.BasicBlock) *dbm {
	m := newDBM()
	addCmp := func(op token.Token, a, b lin) {
		if !a.ok || !b.ok {
			return
		}
		switch op { // a op b
		case token.LSS:
			m.add(a.atom, b.atom, b.c-a.c-1)
		case token.LEQ:
			m.add(a.atom, b.atom, b.c-a.c)
		case token.GTR:
			m.add(b.atom, a.atom, a.c-b.c-1)
		case token.GEQ:
			m.add(b.atom, a.atom, a.c-b.c)
		case token.EQL:
			m.add(a.atom, b.atom, b.c-a.c)
			m.add(b.atom, a.atom, a.c-b.c)
		case token.NEQ:
			// len(x) != 0  =>  len(x) >= 1 (lengths are non-negative)
			if b.atom == "" && strings.HasPrefix(a.atom, "len(") && b.c-a.c == 0 {
				m.add("", a.atom, -1)
			}
			if a.atom == "" && strings.HasPrefix(b.atom, "len(") && a.c-b.c == 0 {
				m.add("", b.atom, -1)
			}
		}
	}
	for _, cf := range ff.DomConds(B) {
		b, ok := cf.Cond.(*ssa.BinOp)
		if !ok {
			continue
		}
		op := b.Op
		if !cf.Pol {
			op = negOp(op)
		}
		if !isIntegerValue(b.X) {
			continue
		}
		// i/j/k name the induction variable of the loop around the current point; a condition
		// about the (final) induction value of a loop that B is not part of would alias it
		if ff.foreignInduction(b.X, B, 0) || ff.foreignInduction(b.Y, B, 0) {
			continue
		}
		addCmp(op, ff.linearize(b.X, 0), ff.linearize(b.Y, 0))
	}
	// value-level facts for every integer value of the function that is referenced:
	// non-negativity, intervals, contracts
	for _, blk := range ff.Fn.Blocks {
		for _, in := range blk.Instrs {
			v, ok := in.(ssa.Value)
			if !ok || !isIntegerValue(v) {
				continue
			}
			l := ff.linearize(v, 0)
			if !l.ok || l.atom == "" {
				continue
			}
			if strings.HasPrefix(l.atom, "len(") {
				m.add("", l.atom, 0) // 0 <= len
			}
			if tr, ok := typeRange(v.Type()); ok && l.c == 0 {
				// interval of the atom itself (only when v IS the atom)
				if ff.Term(v) == l.atom {
					iv := ff.rangeOf(v, nil, 2)
					if iv.Hi.IsInt64() && iv.Hi.Cmp(tr.Hi) <= 0 {
						m.add(l.atom, "", iv.Hi.Int64())
					}
					if iv.Lo.IsInt64() && iv.Lo.Int64() > math.MinInt64 {
						m.add("", l.atom, -iv.Lo.Int64())
					}
				}
			}
			// contracts: facts about a call's results hold only where the call has been executed
			if !blk.Dominates(B) {
				continue
			}
			if ex, ok := v.(*ssa.Extract); ok {
				if call, ok := ex.Tuple.(*ssa.Call); ok {
					if rcs, ok := relContracts[calleeName(&call.Call)]; ok && ff.okCallAt(call, B) {
						side := func(s string) (lin, bool) {
							var k int
							fmt.Sscanf(s[1:], "%d", &k)
							if s[0] == 'a' {
								if k >= len(call.Call.Args) {
									return lin{}, false
								}
								return ff.linearize(call.Call.Args[k], 1), true
							}
							return lin{fmt.Sprintf("%s#%d", ff.Term(call), k), 0, true}, true
						}
						for _, rc := range rcs {
							lo, ok1 := side(rc.lo)
							hi, ok2 := side(rc.hi)
							if ok1 && ok2 && lo.ok && hi.ok {
								m.add(lo.atom, hi.atom, hi.c-lo.c)
							}
						}
					}
					if ct, ok := lenContracts[calleeName(&call.Call)]; ok {
						if k, ok := ct[ex.Index]; ok && k < len(call.Call.Args) {
							ff.addLenBound(m, v, call.Call.Args[k])
						}
					}
				}
			}
			if call, ok := v.(*ssa.Call); ok {
				if ct, ok := lenContracts[calleeName(&call.Call)]; ok {
					if k, ok := ct[0]; ok && call.Call.Signature().Results().Len() == 1 && k < len(call.Call.Args) {
						ff.addLenBound(m, v, call.Call.Args[k])
					}
				}
			}
		}
	}
	// less-function of sort.Slice(x, func(i, j int) bool): 0 <= i, j < len(x)
	if ff.isSortLess() {
		for _, blk := range ff.Fn.Blocks {
			for _, in := range blk.Instrs {
				var X, I ssa.Value
				switch x := in.(type) {
				case *ssa.IndexAddr:
					X, I = x.X, x.Index
				case *ssa.Index:
					X, I = x.X, x.Index
				}
				if prm, ok := I.(*ssa.Parameter); ok && X != nil {
					m.add("", ff.Term(prm), 0)
					m.add(ff.Term(prm), ff.lenAtom(X), -1)
				}
			}
		}
	}
	// len(buf.Bytes()) == buf.Len() when nothing touches buf between the two calls
	for _, blk := range ff.Fn.Blocks {
		for i, in := range blk.Instrs {
			c, ok := in.(*ssa.Call)
			if !ok || calleeName(&c.Call) != "bytes.Buffer.Bytes" {
				continue
			}
			recv := ff.Term(c.Call.Args[0])
			if prev := ff.prevCallOn(blk, i, recv); prev != nil && calleeName(&prev.Call) == "bytes.Buffer.Len" {
				a, b := ff.lenAtom(c), ff.Term(prev)
				m.add(a, b, 0)
				m.add(b, a, 0)
			}
		}
	}
	// induction variables start at >= 0 (range loops and "for i := 0")
	for phi, name := range ff.inductionPhi {
		lp := ff.headerLoop[phi.Block()]
		if lp == nil {
			continue
		}
		nm := strings.TrimSuffix(strings.TrimPrefix(name, "("), "-1)")
		initOK := false
		for i, pred := range phi.Block().Preds {
			if !lp.Blocks[pred] {
				if c, ok := constInt(phi.Edges[i]); ok && c.Sign() >= -1 {
					initOK = true
				}
			}
		}
		if initOK {
			m.add("", nm, 0)
		}
	}
	return m
}

// foreignInduction: v mentions the induction variable of a loop that does not contain B.
func (ff *FuncFacts) foreignInduction(v ssa.Value, B *ssa.BasicBlock, d int) bool {
	if d > 6 || v == nil {
		return false
	}
	var phi *ssa.Phi
	switch x := v.(type) {
	case *ssa.Phi:
		// any loop-carried value: its term (i/j/k or fold[...]) does not identify the loop
		if ff.headerLoop[x.Block()] != nil {
			phi = x
		}
	case *ssa.BinOp:
		if _, ok := ff.inductionAlias[x]; ok {
			if p, ok := x.X.(*ssa.Phi); ok {
				phi = p
			}
		}
	}
	if phi != nil {
		lp := ff.headerLoop[phi.Block()]
		if lp == nil {
			return true
		}
		if lp.Blocks[B] {
			return false
		}
		// a block that leaves the loop from its body (return / break target reached only from
		// the body) still sees the current iteration's value; a block hanging off the header's
		// exit edge, or inside another loop, does not
		inside := false
		for d := B.Idom(); d != nil; d = d.Idom() {
			if lp.Blocks[d] {
				inside = d != lp.Header
				break
			}
		}
		if inside {
			for l := ff.innermost[B]; l != nil; l = l.Parent {
				if !l.Blocks[lp.Header] {
					inside = false
				}
			}
		}
		return !inside
	}
	if in, ok := v.(ssa.Instruction); ok {
		if _, isPhi := v.(*ssa.Phi); isPhi {
			return false
		}
		for _, op := range in.Operands(nil) {
			if op != nil && *op != nil && ff.foreignInduction(*op, B, d+1) {
				return true
			}
		}
	}
	return false
}

// addLenBound: v <= len(arg) — uses the linear form of len(arg).
func (ff *FuncFacts) addLenBound(m *dbm, v ssa.Value, arg ssa.Value) {
	lv := ff.linearize(v, 0)
	la := ff.lenLin(arg, 1)
	if !la.ok {
		la = lin{ff.lenAtom(arg), 0, true}
	}
	if lv.ok {
		m.add(lv.atom, la.atom, la.c-lv.c)
		m.add("", lv.atom, lv.c) // every contracted result is a count: 0 <= v
	}
	// a conversion of a value bounded by a length (<= MaxInt63) preserves it
	if refs := v.Referrers(); refs != nil {
		for _, rf := range *refs {
			if cv, ok := rf.(*ssa.Convert); ok && isIntegerValue(cv) {
				if tr, ok := typeRange(cv.Type()); ok && tr.Hi.Cmp(maxLen) >= 0 {
					lc := lin{ff.Term(cv), 0, true}
					m.add(lc.atom, la.atom, la.c)
					m.add("", lc.atom, 0)
				}
			}
		}
	}
}

func isIntegerValue(v ssa.Value) bool {
	b, ok := v.Type().Underlying().(*types.Basic)
	return ok && b.Info()&types.IsInteger != 0
}

type BoundSite struct {
	Expr string
	In   ssa.Instruction
	OK   bool
	Why  string
}

// BoundSites enumerates and decides the slice/index obligations of the function.
func (ff *FuncFacts) BoundSites() []BoundSite {
	var out []BoundSite
	cache := map[*ssa.BasicBlock]*dbm{}
	facts := func(b *ssa.BasicBlock) *dbm {
		if m, ok := cache[b]; ok {
			return m
		}
		m := ff.factsAt(b)
		cache[b] = m
		return m
	}
	le := func(m *dbm, a, b lin) bool { // a <= b
		if !a.ok || !b.ok {
			return false
		}
		if m.inconsistent() {
			return false // contradictory facts prove nothing here (dead code or analyser error): undecided
		}
		if a.atom == b.atom {
			return a.c <= b.c
		}
		return m.entails(a.atom, b.atom, b.c-a.c)
	}
	for _, b := range ff.Fn.Blocks {
		for _, in := range b.Instrs {
			switch x := in.(type) {
			case *ssa.Slice:
				var length lin
				if arr, ok := derefArray(x.X.Type()); ok {
					length = lin{"", arr.Len(), true}
				} else {
					length = ff.lenLin(x.X, 0)
				}
				if x.Low == nil && x.High == nil {
					continue
				}
				m := facts(b)
				s := BoundSite{Expr: ff.Term(x), In: x}
				lo := lin{"", 0, true}
				if x.Low != nil {
					lo = ff.linearize(x.Low, 0)
				}
				hi := length
				if x.High != nil {
					hi = ff.linearize(x.High, 0)
				}
				zero := lin{"", 0, true}
				var fails []string
				if x.Low != nil && !le(m, zero, lo) {
					fails = append(fails, "0 <= lo")
				}
				if !le(m, lo, hi) {
					fails = append(fails, "lo <= hi")
				}
				if x.High != nil && !le(m, hi, length) {
					// slices may be re-sliced up to cap; we require len (conservative) unless
					// the operand was allocated in this function with a known cap
					if !ff.withinCap(m, x, hi) {
						fails = append(fails, "hi <= len")
					}
				}
				if len(fails) == 0 {
					s.OK, s.Why = true, "difference bounds: 0 <= lo <= hi <= len established on every path"
				} else {
					s.Why = "cannot establish " + strings.Join(fails, ", ") + fmt.Sprintf(" (lo=%s%+d hi=%s%+d len=%s%+d)", lo.atom, lo.c, hi.atom, hi.c, length.atom, length.c)
				}
				out = append(out, s)
			case *ssa.IndexAddr, *ssa.Index:
				var X, I ssa.Value
				if ia, ok := x.(*ssa.IndexAddr); ok {
					X, I = ia.X, ia.Index
				} else {
					ix := x.(*ssa.Index)
					X, I = ix.X, ix.Index
				}
				var length lin
				if arr, ok := derefArray(X.Type()); ok {
					length = lin{"", arr.Len(), true}
				} else if arr, ok := X.Type().Underlying().(*types.Array); ok {
					length = lin{"", arr.Len(), true}
				} else if mk, ok := X.(*ssa.MakeSlice); ok {
					length = ff.linearize(mk.Len, 1)
				} else if ln, ok := ff.madeLen(X); ok {
					length = ff.linearize(ln, 1)
				} else {
					length = lin{ff.lenAtom(X), 0, true}
				}
				m := facts(b)
				i := ff.linearize(I, 0)
				s := BoundSite{Expr: ff.Term(x.(ssa.Value)), In: x}
				zero := lin{"", 0, true}
				var fails []string
				if !le(m, zero, i) {
					fails = append(fails, "0 <= index")
				}
				i1 := i
				i1.c++
				if !le(m, i1, length) {
					fails = append(fails, "index < len")
				}
				if len(fails) == 0 {
					s.OK, s.Why = true, "difference bounds: 0 <= index < len established on every path"
				} else {
					s.Why = "cannot establish " + strings.Join(fails, ", ") + fmt.Sprintf(" (index=%s%+d len=%s%+d)", i.atom, i.c, length.atom, length.c)
				}
				out = append(out, s)
			}
		}
	}
	return out
}

// withinCap: x.X is make([]T, n[, c]) in this function and hi <= cap.
func (ff *FuncFacts) withinCap(m *dbm, x *ssa.Slice, hi lin) bool {
	mk, ok := x.X.(*ssa.MakeSlice)
	if !ok {
		return false
	}
	c := ff.linearize(mk.Cap, 0)
	if !c.ok || !hi.ok {
		return false
	}
	if c.atom == hi.atom {
		return hi.c <= c.c
	}
	return m.entails(hi.atom, c.atom, c.c-hi.c)
}

func boundObligations(r *Run, rule string, fnRefs ...string) {
	for _, ref := range fnRefs {
		fn := r.fn(rule, ref)
		if fn == nil {
			continue
		}
		for _, f := range append([]*ssa.Function{fn}, r.P.singleUseCallees(fn, 2)...) {
			sites := r.P.Facts(f).BoundSites()
			r.Units["bounds obligations"] += len(sites)
			name := ref
			if f != fn {
				name = ref + " (helper " + FnName(f) + ")"
			}
			for _, s := range sites {
				r.Check(rule, name+": "+trunc(s.Expr, 110), r.P.Pos(s.In.Pos()), s.OK, s.Why)
			}
		}
	}
}

// okCallAt: the call's error result is known nil at block B (or the callee returns no error).
func (ff *FuncFacts) okCallAt(call *ssa.Call, B *ssa.BasicBlock) bool {
	res := call.Call.Signature().Results()
	if res.Len() == 0 || !isErrorType(res.At(res.Len()-1).Type()) {
		return true
	}
	want := "ok(" + ff.Term(call) + ")"
	for _, a := range ff.Must(B) {
		if a.S == want {
			return true
		}
	}
	return false
}

// prevCallOn: the nearest call before instruction i of blk (following single-
// predecessor chains) that has an argument rendered as recv; nil if a join is met.
func (ff *FuncFacts) prevCallOn(blk *ssa.BasicBlock, i int, recv string) *ssa.Call {
	for hops := 0; hops < 6; hops++ {
		for j := i - 1; j >= 0; j-- {
			if c, ok := blk.Instrs[j].(*ssa.Call); ok {
				for _, a := range c.Call.Args {
					if ff.Term(a) == recv {
						return c
					}
				}
			}
		}
		if len(blk.Preds) != 1 {
			return nil
		}
		blk = blk.Preds[0]
		i = len(blk.Instrs)
	}
	return nil
}

// isSortLess: the function is a closure used only as the less argument of
// sort.Slice / sort.SliceStable.
func (ff *FuncFacts) isSortLess() bool {
	fn := ff.Fn
	if fn.Parent() == nil || len(fn.Params) != 2 {
		return false
	}
	found := false
	for _, b := range fn.Parent().Blocks {
		for _, in := range b.Instrs {
			mc, ok := in.(*ssa.MakeClosure)
			if !ok || mc.Fn != fn {
				continue
			}
			for _, rf := range *mc.Referrers() {
				c, ok := rf.(*ssa.Call)
				if !ok {
					return false
				}
				n := calleeName(&c.Call)
				if n != "sort.Slice" && n != "sort.SliceStable" {
					return false
				}
				found = true
			}
		}
	}
	return found
}
