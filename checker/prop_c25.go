package main

import (
	"fmt"
	"go/token"
	"go/types"
	"strings"

	"golang.org/x/tools/go/ssa"
)

func init() {
	props["C25"] = checkC25
	props["C33"] = checkC33
}

func checkC25(r *Run) {
	r.Explain = "(R1+) useragent.Parse accepts only non-empty, validated strings that the pattern matches entirely and whose version is valid semver, unconditionally; (R3+) no message process method is called except through the gated dispatch of onMessageEvent, and every message type's Handle only queues itself (recordMessageEvent(self, mc)) without any daemon operation before the gate; C25: (R1) IntroductionMessage.Verify succeeds only with mirror != ours, protocol version >= minimum, extra data carrying this network's blockchain pubkey (copied from Extra[:33] and compared), valid verification parameters, a parseable user agent — and rejects for nothing else; (R2) a connection is marked introduced only from IntroductionMessage.process after Verify succeeded; (R3) before introduction only Introduction, Disconnect and GivePeers messages are dispatched to their handler, and asyncMessage.process is called from nowhere else; (R4) every slice/index of the untrusted Extra bytes is in bounds on every path."
	r.NotDec = "behaviour of the user-agent parser itself; network-level sequencing"
	ruleNoCrossedConfig(r, "C25-R0")
	// below the daemon's gate: a frame gnet cannot turn into a registered message (unknown id, malformed body,
	// trailing bytes) ends the connection: every error of receiveMessage is handed to the connection's error
	// channel at once, none is skipped
	nRecv := 0
	for _, f := range r.P.ModFns {
		if !strings.HasPrefix(FnName(f), "daemon/gnet.ConnectionPool.handleConnection") {
			continue
		}
		for _, cs := range r.CallSites(f, "daemon/gnet.ConnectionPool.receiveMessage") {
			nRecv++
			okSend := false
			call, _ := cs.(*ssa.Call)
			for _, b := range f.Blocks {
				iff, isIf := b.Instrs[len(b.Instrs)-1].(*ssa.If)
				if !isIf || call == nil {
					continue
				}
				bo, isBo := iff.Cond.(*ssa.BinOp)
				if !isBo || bo.Op != token.NEQ || bo.X != ssa.Value(call) {
					continue
				}
				for _, in := range b.Succs[0].Instrs {
					switch x := in.(type) {
					case *ssa.Send:
						okSend = true
					case *ssa.Select:
						for _, st := range x.States {
							if st.Dir == types.SendOnly {
								okSend = true
							}
						}
					}
				}
			}
			r.Check("C25-R4", FnName(f)+": an error of receiveMessage goes straight to the connection's error channel (the peer is disconnected)", r.P.Pos(cs.Pos()), okSend,
				"some receiveMessage errors are skipped: a peer can keep an un-introduced connection open with frames that never reach the daemon's gate")
		}
	}
	r.Check("C25-R4", "gnet receive loop found", "", nRecv == 1, fmt.Sprint(nRecv))
	// "valid user agent" (R1): what useragent.Parse accepts — non-empty, charset/length validated, the whole string
	// matches the user-agent pattern, and the version part is valid semver, unconditionally
	const M = "regexp.Regexp.FindAllStringSubmatch(util/useragent.re, $0, -1)"
	r.RequireOnSuccess("C25-R1", "util/useragent.Parse",
		req("non-empty", "len($0) != 0"),
		req("characters and length validated", "ok(util/useragent.validate($0))"),
		req("pattern matched", "len("+M+") != 0"),
		req("the match covers the whole string", M+"[0][0] == $0"),
		req("version is valid semver", "ok(semver.Parse("+M+"[0][2]))"))
	reqs := []Req{
		req("not a connection to ourselves", "$0.Mirror != $1.Mirror"),
		req("supported protocol version", "$1.MinProtocolVersion <= $0.ProtocolVersion"),
		req("extra data present", "len($0.Extra) != 0"),
		req("extra data holds a full pubkey", "33 <= len($0.Extra)"),
		req("blockchain pubkey matches this network's", "$1.BlockchainPubkey == local:cipher.PubKey"),
		req("verification parameters present", "(33 + 9) <= len($0.Extra)"),
		req("verification parameters decode exactly", "ok(cipher/encoder.DeserializeRawExact($0.Extra[33:(33 + 9)], $0.UnconfirmedVerifyTxn))"),
		req("verification parameters valid", "ok(params.VerifyTxn.Validate($0.UnconfirmedVerifyTxn))"),
		req("user agent string decodes within its length limit", "ok(cipher/encoder.DeserializeString($0.Extra[(33 + 9):], 256))"),
		req("user agent parses", "ok(util/useragent.Parse(util/useragent.Sanitize(cipher/encoder.DeserializeString($0.Extra[(33 + 9):], 256)#0)))"),
	}
	r.RequireOnSuccess("C25-R1", "daemon.IntroductionMessage.Verify", reqs...)
	allowed := append([]Req{}, reqs...)
	allowed = append(allowed,
		req("validate error classification (burn factor)", "params.VerifyTxn.Validate($0.UnconfirmedVerifyTxn) != params.ErrInvalidBurnFactor", "params.VerifyTxn.Validate($0.UnconfirmedVerifyTxn) == params.ErrInvalidBurnFactor"),
		req("validate error classification (max txn size)", "params.VerifyTxn.Validate($0.UnconfirmedVerifyTxn) != params.ErrInvalidMaxTransactionSize", "params.VerifyTxn.Validate($0.UnconfirmedVerifyTxn) == params.ErrInvalidMaxTransactionSize"),
		req("validate error classification (precision)", "params.VerifyTxn.Validate($0.UnconfirmedVerifyTxn) != params.ErrInvalidMaxDropletPrecision", "params.VerifyTxn.Validate($0.UnconfirmedVerifyTxn) == params.ErrInvalidMaxDropletPrecision"),
		req("trailing genesis hash, if present, is complete", "32 <= (len($0.Extra) - *", "(len($0.Extra) - *) <= 0"),
	)
	r.ExhaustiveRejects("C25-R1", "daemon.IntroductionMessage.Verify", allowed...)
	// the compared pubkey is the first 33 bytes of Extra
	if fn := r.fn("C25-R1", "daemon.IntroductionMessage.Verify"); fn != nil {
		found := false
		for _, cs := range r.CallSites(fn, "copy") {
			if r.argTerm(cs, 0) == "local:cipher.PubKey[:]" && r.argTerm(cs, 1) == "$0.Extra[:33]" {
				found = true
				r.Pass("C25-R1", "Verify: the compared pubkey is copied from Extra[:33]", r.P.Pos(cs.Pos()), "copy(bcPubKey[:], intro.Extra[:33])")
			}
		}
		if !found {
			r.Fail("C25-R1", "Verify: the compared pubkey is copied from Extra[:33]", r.P.Pos(fn.Pos()), "no copy(bcPubKey[:], Extra[:33]) found")
		}
	}
	r.RequireOnSuccess("C25-R1", "params.VerifyTxn.Validate",
		req("burn factor at least the minimum", "params.MinBurnFactor <= $0.BurnFactor", "2 <= $0.BurnFactor"),
		req("max transaction size at least the minimum", "params.MinTransactionSize <= $0.MaxTransactionSize", "1024 <= $0.MaxTransactionSize"),
		req("precision within the droplet exponent", "$0.MaxDropletPrecision <= 6", "$0.MaxDropletPrecision <= util/droplet.Exponent"))

	// R2
	r.RequireAtCall("C25-R2", "daemon.IntroductionMessage.process", "iface:daemon.daemoner.connectionIntroduced", 1,
		req("Verify succeeded with the daemon's configuration", "ok(daemon.IntroductionMessage.Verify($0, iface:daemon.daemoner.DaemonConfig($1), *))"))
	r.checkCallers("C25-R2", "daemon.Daemon.connectionIntroduced", "daemon.IntroductionMessage.process")
	r.checkCallers("C25-R2", "daemon.Connections.introduced", "daemon.Daemon.connectionIntroduced")
	// R3
	hi := "daemon.ConnectionDetails.HasIntroduced(daemon.Connections.get($0.connections, $1.Context.Addr).ConnectionDetails)"
	r.RequireAtCall("C25-R3", "daemon.Daemon.onMessageEvent", "iface:daemon.asyncMessage.process", 1,
		req("connection known", "daemon.Connections.get($0.connections, $1.Context.Addr) != nil"),
		req("message belongs to the current connection id", "daemon.Connections.get($0.connections, $1.Context.Addr).gnetID == $1.Context.ConnID"),
		req("before introduction only Disconnect / Introduction / GivePeers are dispatched",
			"when: !$1.Message.(*daemon.DisconnectMessage)#1 && !$1.Message.(*daemon.IntroductionMessage)#1 && !"+hi+" => $1.Message.(*daemon.GivePeersMessage)#1"))
	n := 0
	for _, fn := range r.P.ModFns {
		for _, b := range fn.Blocks {
			for _, in := range b.Instrs {
				if ci, ok := in.(ssa.CallInstruction); ok && strings.HasSuffix(calleeName(ci.Common()), "asyncMessage.process") {
					n++
					r.Check("C25-R3", "asyncMessage.process called from "+FnName(fn), r.P.Pos(ci.Pos()), FnName(fn) == "daemon.Daemon.onMessageEvent", "message handlers may only be dispatched by onMessageEvent")
				}
			}
		}
	}
	if n == 0 {
		r.Fail("C25-R3", "asyncMessage.process call sites", "", "anchor-unresolved: none found")
	}
	// the concrete process methods are reachable only through that dispatch: no static call from anywhere,
	// and every message type's Handle does nothing but queue the message for the gate
	nProc, nHandle := 0, 0
	procs := map[*ssa.Function]bool{}
	for _, fn := range r.P.ModFns {
		if strings.HasPrefix(FnName(fn), "daemon.") && fn.Name() == "process" && fn.Signature.Recv() != nil && fn.Signature.Params().Len() == 1 && typeShort(fn.Signature.Params().At(0).Type()) == "daemon.daemoner" {
			procs[fn] = true
			nProc++
		}
	}
	for _, fn := range r.P.ModFns {
		for _, b := range fn.Blocks {
			for _, in := range b.Instrs {
				if ci, ok := in.(ssa.CallInstruction); ok {
					if cal := ci.Common().StaticCallee(); cal != nil && procs[cal] {
						r.Check("C25-R3", FnName(cal)+" is called directly from "+FnName(fn), r.P.Pos(ci.Pos()), false, "bypasses the introduction gate of onMessageEvent: a peer that never introduced itself gets this message processed")
					}
				}
			}
		}
	}
	r.Check("C25-R3", "message process methods found (reachable only through the gated dispatch)", "", nProc >= 10, fmt.Sprint(nProc))
	for _, fn := range r.P.ModFns {
		if !strings.HasPrefix(FnName(fn), "daemon.") || fn.Name() != "Handle" || fn.Signature.Recv() == nil || fn.Signature.Params().Len() != 2 {
			continue
		}
		nHandle++
		ff := r.P.Facts(fn)
		ok := true
		nRec := 0
		for _, b := range fn.Blocks {
			for _, in := range b.Instrs {
				ci, isCall := in.(ssa.CallInstruction)
				if !isCall {
					continue
				}
				switch nm := calleeName(ci.Common()); {
				case nm == "iface:daemon.daemoner.recordMessageEvent":
					nRec++
					if ff.Term(ci.Common().Args[0]) != "$0" || ff.Term(ci.Common().Args[1]) != "$1" {
						ok = false
					}
				case strings.HasPrefix(nm, "iface:daemon.daemoner."):
					ok = false // any other daemon operation from Handle runs before the gate
				}
			}
		}
		r.Check("C25-R3", FnName(fn)+": only queues itself with its own context (recordMessageEvent(self, mc)); no daemon operation before the gate", r.P.Pos(fn.Pos()), ok && nRec == 1, "")
		r.RequireOnSuccess("C25-R3", FnName(fn), req("queued for the gated dispatch", "ok(iface:daemon.daemoner.recordMessageEvent(*))"))
	}
	r.Check("C25-R3", "message Handle methods found", "", nHandle >= 10 && nHandle == nProc, fmt.Sprintf("%d handle / %d process", nHandle, nProc))
	// R4
	boundObligations(r, "C25-R4", "daemon.IntroductionMessage.Verify")
	r.Min("C25-R4", 5)
}

func checkC33(r *Run) {
	r.Explain = "(R1+) the executed block's body is bound to the signed header: verifyBlockHeader (on the execution path for every non-genesis block) requires BodyHash and PrevHash to match, the signature is checked over the header hash; C33: (R1) GiveBlocksMessage.process executes blocks only through the signature-checking Visor path, skips blocks at or below the head, and stops at the first failure; (R2) after progress it requests the next blocks; announce/get handlers request blocks above the head; (R3) gap-freeness is C04-R3 (seq == head+1)."
	r.NotDec = "convergence for concrete delivery orders (a history property)"
	ruleNoCrossedConfig(r, "C33-R0")
	ruleSignedHashAcceptors(r, "C33-R1")
	// a genuine publisher block is not refused: the hard-constraint verifiers reject only for the documented reasons
	ruleHoursSpending(r, "C33-R4")
	fn := r.fn("C33-R1", "daemon.GiveBlocksMessage.process")
	if fn == nil {
		return
	}
	sites := r.RequireAtCall("C33-R1", "daemon.GiveBlocksMessage.process", "iface:daemon.daemoner.executeSignedBlock", 1,
		req("networking enabled", "!iface:daemon.daemoner.DaemonConfig($1).DisableNetworking"),
		req("head sequence known", "ok(iface:daemon.daemoner.headBkSeq($1))"),
		req("block is above the current head", "iface:daemon.daemoner.headBkSeq($1)#0 < $0.Blocks[i].Block.Head.BkSeq", "iface:daemon.daemoner.headBkSeq($1)#0 < *[i].Block.Head.BkSeq", "φ(*) < *[i].Block.Head.BkSeq", "* < $0.Blocks[i].Block.Head.BkSeq"))
	for _, cs := range sites {
		t := r.argTerm(cs, 0)
		r.Check("C33-R1", "the executed block is the i-th received block, unmodified", r.P.Pos(cs.Pos()), t == "$0.Blocks[i]", "argument is "+t)
	}
	// no call of an Unsafe executor from the daemon package
	for _, f := range r.P.ModFns {
		if !strings.HasPrefix(FnName(f), "daemon.") {
			continue
		}
		for _, b := range f.Blocks {
			for _, in := range b.Instrs {
				if ci, ok := in.(ssa.CallInstruction); ok && strings.Contains(calleeName(ci.Common()), "Unsafe") {
					r.Check("C33-R1", FnName(f)+" calls "+calleeName(ci.Common()), r.P.Pos(ci.Pos()), false, "the daemon must execute peer blocks only through the signature-checking path")
				}
			}
		}
	}
	r.RequireOnSuccess("C33-R1", "daemon.Daemon.executeSignedBlock", req("delegates to the signature-checking Visor entry", "ok(visor.Visor.ExecuteSignedBlock($0.visor, $1))", "ok(iface:daemon.visorer.ExecuteSignedBlock($0.visor, $1))"))
	ruleBlockSigChain(r, "C33-R1")
	// loop stops at first failure: the call's error edge leaves the loop
	ff := r.P.Facts(fn)
	for _, cs := range sites {
		v, _ := cs.(ssa.Value)
		lp := ff.innermost[cs.Block()]
		ok := false
		if lp != nil && v != nil {
			iff := ifOf(cs.Block())
			if iff != nil {
				if b, isB := iff.Cond.(*ssa.BinOp); isB && ff.Term(b.X) == ff.Term(v) {
					// err != nil edge must leave the loop
					errSucc := cs.Block().Succs[0]
					if b.Op.String() == "==" {
						errSucc = cs.Block().Succs[1]
					}
					ok = !ff.reachWithin(lp, errSucc, lp.Latches[0], nil) || !lp.Blocks[errSucc]
				}
			}
		}
		r.Check("C33-R1", "processing stops at the first block that fails to execute", r.P.Pos(cs.Pos()), ok, "the failing edge of executeSignedBlock must leave the loop (no later block may be applied over a gap)")
	}
	// R2: after progress a GetBlocks request is broadcast
	type bsite struct {
		cs ssa.CallInstruction
		t  string
		fs []string
	}
	var bsites []bsite
	for _, cs := range r.CallSites(fn, "iface:daemon.daemoner.broadcastMessage") {
		var fs []string
		for _, a := range ff.MustAt(cs) {
			fs = append(fs, a.S)
		}
		bsites = append(bsites, bsite{cs, r.argTerm(cs, 0), fs})
	}
	// the announce/request tail may live in a single-use helper: its sites count with the caller's facts
	for _, b := range fn.Blocks {
		for _, in := range b.Instrs {
			ci, ok := in.(ssa.CallInstruction)
			if !ok {
				continue
			}
			h := ci.Common().StaticCallee()
			if h == nil || !r.P.singleUse(h) {
				continue
			}
			var args []string
			for _, a := range ci.Common().Args {
				args = append(args, ff.Term(a))
			}
			for _, hs := range r.CallSites(h, "iface:daemon.daemoner.broadcastMessage") {
				_, fs := r.P.attribute(h, hs.Block())
				bsites = append(bsites, bsite{hs, substParams(r.argTerm(hs, 0), args), fs})
			}
		}
	}
	found := false
	for _, bs := range bsites {
		cs, t := bs.cs, bs.t
		if strings.HasPrefix(t, "daemon.NewGetBlocksMessage(") {
			found = true
			fs := bs.fs
			_, m := matchAny([]string{"i != 0", "0 < *", "* != 0"}, fs)
			r.Check("C33-R2", "after progress, the next blocks above the new head are requested", r.P.Pos(cs.Pos()), m, "GetBlocks broadcast: "+trunc(t, 120))
			r.Check("C33-R2", "the request starts at the head sequence re-read after executing the blocks (second headBkSeq call)", r.P.Pos(cs.Pos()), strings.HasPrefix(t, "daemon.NewGetBlocksMessage(iface:daemon.daemoner.headBkSeq@2($1)#0"), t)
		}
	}
	if !found {
		r.Fail("C33-R2", "after progress, the next blocks above the new head are requested", r.P.Pos(fn.Pos()), "no GetBlocksMessage broadcast in GiveBlocksMessage.process")
	}
	// every path that executed at least one block reaches that broadcast — post-dominance
	r.RequireFollows("C33-R2", "daemon.GiveBlocksMessage.process", "iface:daemon.daemoner.executeSignedBlock", "iface:daemon.daemoner.broadcastMessage", "daemon.NewGetBlocksMessage(", "once a block was executed, every exit re-requests blocks above the new head",
		// documented early exits: the head cannot be re-read; and the "nothing processed" exit
		// (infeasible after an increment, but path-insensitive here: allowed by table)
		"err(iface:daemon.daemoner.headBkSeq@2($1))", "!iface:daemon.daemoner.headBkSeq@2($1)#1", "fold[acc=0; (acc + 1)] == 0")
	r.RequireAtCall("C33-R2", "daemon.AnnounceBlocksMessage.process", "iface:daemon.daemoner.sendMessage", 1,
		req("peer announces a higher block than our head", "iface:daemon.daemoner.headBkSeq($1)#0 < $0.MaxBkSeq"))
	r.RequireOnSuccess("C33-R3", "visor.Blockchain.verifyBlockHeader",
		req("gap-free: sequence is head+1", "$2.Head.BkSeq == (visor.Blockchain.Head($0, $1)#0.Block.Head.BkSeq + 1)"))
}

// ruleBlockSigChain: Visor.ExecuteSignedBlock -> executeSignedBlock (signature) in one Update.
func ruleBlockSigChain(r *Run, rule string) {
	// the signature covers the header; the header binds the body (BodyHash) and the parent (PrevHash): both are
	// checked on the execution path itself, so a genuine header+signature cannot carry a foreign body
	r.RequireOnSuccess(rule, "visor.Blockchain.verifyBlockHeader",
		req("body hash of the block equals the signed header's BodyHash", "coin.BlockBody.Hash($2.Body) == $2.Head.BodyHash"),
		req("parent hash is the head's header hash", "$2.Head.PrevHash == coin.Block.HashHeader(visor.Blockchain.Head($0, $1)#0.Block)"))
	r.RequireOnSuccess(rule, "visor.Blockchain.processBlock",
		req("header verified for every non-genesis block", "when: 0 < visor.Blockchain.Len($0, $1)#0 => ok(visor.Blockchain.verifyBlockHeader($0, $1, $2.Block))"))
	// ... and it is the block as received that is verified: the header check precedes the arbitration step that may
	// rewrite the body (sorted, filtered) on a publisher node
	r.RequireCallOrder(rule, "visor.Blockchain.processBlock", "the header (body hash) is verified on the block as received, before processTransactions can rewrite the body", "visor.Blockchain.verifyBlockHeader", "visor.Blockchain.processTransactions")
	r.RequireAtCall(rule, "visor.Blockchain.ExecuteBlock", "iface:visor.chainStore.AddBlock", 1,
		req("block stored only after processBlock accepted it", "ok(visor.Blockchain.processBlock($0, $1, *))"))
	r.RequireOnSuccess(rule, "coin.SignedBlock.VerifySignature",
		req("signature checked over the header hash", "ok(cipher.VerifyPubKeySignedHash($1, $0.Sig, coin.Block.HashHeader($0.Block)))"))
	r.RequireOnSuccess(rule, "visor.Visor.executeSignedBlock",
		req("publisher signature verified with the configured key", "ok(coin.SignedBlock.VerifySignature($2, $0.Config.BlockchainPubkey))"))
	if fn := r.fn(rule, "visor.Visor.ExecuteSignedBlock:1"); fn != nil {
		ff := r.P.Facts(fn)
		ok := false
		for _, ex := range ff.Exits() {
			if strings.HasPrefix(ex.Desc, "visor.Visor.executeSignedBlock(^$^0, $0, ^$^1)") {
				ok = true
			}
		}
		r.Check(rule, "Visor.ExecuteSignedBlock runs executeSignedBlock(tx, b) inside one db.Update", r.P.Pos(fn.Pos()), ok, "")
	}
}
