package main

// rules shared by several properties; filled in below
func ruleCoinHoursArith(r *Run, rule string)    { arithObligations(r, rule, "coin.UxOut.CoinHours") }
func ruleTxErrorDiscipline(r *Run, rule string) { txErrorDiscipline(r, rule) }
