package main

// rules shared by several properties; filled in below
func ruleCoinHoursArith(r *Run, rule string)    { arithObligations(r, rule, "coin.UxOut.CoinHours") }
func ruleTxErrorDiscipline(r *Run, rule string) { txErrorDiscipline(r, rule) }

// ruleNullPredicates: the zero-value predicates the rule sets lean on ("null signature", "null hash",
// "null address") are exact comparisons of the whole value with the zero value.
func ruleNullPredicates(r *Run, rule string, fns ...string) {
	for _, f := range fns {
		r.ReturnShape(rule, f, 0, ShapeCase{"", "($0 == zero)"})
	}
}
