package main

import (
	"go/types"
	"golang.org/x/tools/go/ssa"
	"strings"
)

// rules shared by several properties; filled in below
func ruleCoinHoursArith(r *Run, rule string)    { arithObligations(r, rule, "coin.UxOut.CoinHours") }
func ruleTxErrorDiscipline(r *Run, rule string) { txErrorDiscipline(r, rule) }

// ruleNullPredicates: the zero-value predicates the rule sets lean on ("null signature", "null hash",
// "null address") are exact comparisons of the whole value with the zero value.
func ruleNullPredicates(r *Run, rule string, fns ...string) {
	for _, f := range fns {
		r.ReturnShape(rule, f, 0, ShapeCase{"", "($0 == zero)"})
	}
}

// mapOrderLeaks: functions (of the given package prefixes) that return a slice assembled while ranging over
// a map without sorting it before the return: the order of the result differs from call to call.
func mapOrderLeaks(p *Program, prefixes ...string) (checked int, leaks []string, pos []ssa.Instruction) {
	for _, fn := range p.ModFns {
		name := FnName(fn)
		ok := false
		for _, pre := range prefixes {
			if strings.HasPrefix(name, pre) {
				ok = true
			}
		}
		if !ok {
			continue
		}
		ff := p.Facts(fn)
		// loops driven by a map range
		mapLoop := map[*Loop]bool{}
		for _, b := range fn.Blocks {
			for _, in := range b.Instrs {
				if nx, isNext := in.(*ssa.Next); isNext && !nx.IsString {
					if rg, ok := nx.Iter.(*ssa.Range); ok {
						if _, isMap := rg.X.Type().Underlying().(*types.Map); isMap {
							if lp := ff.innermost[b]; lp != nil {
								mapLoop[lp] = true
							}
						}
					}
				}
			}
		}
		if len(mapLoop) == 0 {
			continue
		}
		checked++
		// values returned
		for _, b := range fn.Blocks {
			ret, isRet := b.Instrs[len(b.Instrs)-1].(*ssa.Return)
			if !isRet {
				continue
			}
			for _, res := range ret.Results {
				if _, isSlice := res.Type().Underlying().(*types.Slice); !isSlice {
					continue
				}
				// does the value come from an append inside a map-range loop?
				seen := map[ssa.Value]bool{}
				var app *ssa.Call
				var walk func(v ssa.Value)
				walk = func(v ssa.Value) {
					if v == nil || seen[v] || app != nil {
						return
					}
					seen[v] = true
					switch x := v.(type) {
					case *ssa.Phi:
						for _, e := range x.Edges {
							walk(e)
						}
					case *ssa.Call:
						if calleeName(&x.Call) == "append" {
							for lp := ff.innermost[x.Block()]; lp != nil; lp = lp.Parent {
								if mapLoop[lp] {
									app = x
								}
							}
							walk(x.Call.Args[0])
						}
					case *ssa.Slice:
						walk(x.X)
					}
				}
				walk(res)
				if app == nil {
					continue
				}
				// sorted before the return?
				rt := ff.Term(res)
				sorted := false
				for _, bb := range fn.Blocks {
					for _, in := range bb.Instrs {
						if c, ok := in.(*ssa.Call); ok && strings.HasPrefix(calleeName(&c.Call), "sort.") && len(c.Call.Args) > 0 {
							at := ff.Term(c.Call.Args[0])
							if at == rt || strings.Contains(at, rt) || strings.Contains(rt, at) {
								sorted = true
							}
						}
					}
				}
				if !sorted {
					leaks = append(leaks, name+": returns "+trunc(rt, 100)+" built while ranging over a map, unsorted")
					pos = append(pos, app)
				}
			}
		}
	}
	return
}
