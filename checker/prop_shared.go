package main

import (
	"fmt"
	"go/types"
	"golang.org/x/tools/go/ssa"
	"regexp"
	"strings"
)

// rules shared by several properties; filled in below
func ruleCoinHoursArith(r *Run, rule string)    { arithObligations(r, rule, "coin.UxOut.CoinHours") }
func ruleTxErrorDiscipline(r *Run, rule string) { txErrorDiscipline(r, rule) }

// ruleNullPredicates: the zero-value predicates the rule sets lean on ("null signature", "null hash",
// "null address") are exact comparisons of the whole value with the zero value.
func ruleNullPredicates(r *Run, rule string, fns ...string) {
	for _, f := range fns {
		r.ReturnShape(rule, f, 0, ShapeCase{"", "($0 == zero)"})
	}
}

// mapOrderLeaks: functions (of the given package prefixes) that return a slice assembled while ranging over
// a map without sorting it before the return: the order of the result differs from call to call.
func mapOrderLeaks(p *Program, prefixes ...string) (checked int, leaks []string, pos []ssa.Instruction) {
	for _, fn := range p.ModFns {
		name := FnName(fn)
		ok := false
		for _, pre := range prefixes {
			if strings.HasPrefix(name, pre) {
				ok = true
			}
		}
		if !ok {
			continue
		}
		ff := p.Facts(fn)
		// loops driven by a map range
		mapLoop := map[*Loop]bool{}
		for _, b := range fn.Blocks {
			for _, in := range b.Instrs {
				if nx, isNext := in.(*ssa.Next); isNext && !nx.IsString {
					if rg, ok := nx.Iter.(*ssa.Range); ok {
						if _, isMap := rg.X.Type().Underlying().(*types.Map); isMap {
							if lp := ff.innermost[b]; lp != nil {
								mapLoop[lp] = true
							}
						}
					}
				}
			}
		}
		if len(mapLoop) == 0 {
			continue
		}
		checked++
		// values returned
		for _, b := range fn.Blocks {
			ret, isRet := b.Instrs[len(b.Instrs)-1].(*ssa.Return)
			if !isRet {
				continue
			}
			for _, res := range ret.Results {
				if _, isSlice := res.Type().Underlying().(*types.Slice); !isSlice {
					continue
				}
				// does the value come from an append inside a map-range loop?
				seen := map[ssa.Value]bool{}
				var app *ssa.Call
				var walk func(v ssa.Value)
				walk = func(v ssa.Value) {
					if v == nil || seen[v] || app != nil {
						return
					}
					seen[v] = true
					switch x := v.(type) {
					case *ssa.Phi:
						for _, e := range x.Edges {
							walk(e)
						}
					case *ssa.Call:
						if calleeName(&x.Call) == "append" {
							for lp := ff.innermost[x.Block()]; lp != nil; lp = lp.Parent {
								if mapLoop[lp] {
									app = x
								}
							}
							walk(x.Call.Args[0])
						}
					case *ssa.Slice:
						walk(x.X)
					}
				}
				walk(res)
				if app == nil {
					continue
				}
				// sorted before the return?
				rt := ff.Term(res)
				sorted := false
				for _, bb := range fn.Blocks {
					for _, in := range bb.Instrs {
						if c, ok := in.(*ssa.Call); ok && strings.HasPrefix(calleeName(&c.Call), "sort.") && len(c.Call.Args) > 0 {
							at := ff.Term(c.Call.Args[0])
							if at == rt || strings.Contains(at, rt) || strings.Contains(rt, at) {
								sorted = true
							}
						}
					}
				}
				if !sorted {
					leaks = append(leaks, name+": returns "+trunc(rt, 100)+" built while ranging over a map, unsorted")
					pos = append(pos, app)
				}
			}
		}
	}
	return
}

// ruleExactDecoders: a generated decodeT reports how many bytes it consumed and leaves the comparison with
// the buffer length to its caller (decodeTExact, or the gnet framing which checks the count).  A caller that
// throws the count away accepts any input with trailing bytes.  Every call of a decodeT that has a
// decodeTExact sibling must therefore use result #0 or return the (count, error) pair unchanged.
func ruleExactDecoders(r *Run, rule string, prefixes ...string) {
	n := 0
	for _, fn := range r.P.ModFns {
		for _, b := range fn.Blocks {
			for _, in := range b.Instrs {
				call, ok := in.(*ssa.Call)
				if !ok {
					continue
				}
				cal := call.Call.StaticCallee()
				if cal == nil || cal.Pkg == nil || !strings.HasPrefix(cal.Name(), "decode") || strings.HasSuffix(cal.Name(), "Exact") {
					continue
				}
				if cal.Pkg.Func(cal.Name()+"Exact") == nil {
					continue
				}
				name := FnName(cal)
				hit := len(prefixes) == 0
				for _, p := range prefixes {
					if strings.HasPrefix(name, p) {
						hit = true
					}
				}
				if !hit {
					continue
				}
				n++
				used := false
				for _, ref := range *call.Referrers() {
					switch x := ref.(type) {
					case *ssa.Extract:
						if x.Index == 0 && x.Referrers() != nil && len(*x.Referrers()) > 0 {
							used = true
						}
					case *ssa.Return:
						used = true
					}
				}
				r.Check(rule, FnName(fn)+" uses the byte count returned by "+name, r.P.Pos(call.Pos()), used,
					"the number of bytes consumed is discarded: input with trailing bytes is accepted")
			}
		}
	}
	r.Units["decoder call sites"] += n
	if n == 0 {
		r.Fail(rule, "calls of generated decoders", "", "anchor-unresolved: no call of a decodeT with a decodeTExact sibling found")
	}
}

// ruleVerifyParamsSites (C05/C06/C11): which soft-rule parameter set reaches which verification site.
// Every argument of type params.VerifyTxn in the module is enumerated; the callers are a reviewed table:
// the block publisher's filter uses Config.CreateBlockVerifyTxn, the unconfirmed pool (foreign injection,
// refresh) Config.UnconfirmedVerifyTxn, everything a user submits params.UserVerifyTxn, and pure
// pass-through functions hand on their own parameter.
func ruleVerifyParamsSites(r *Run, rule string) {
	// keyed by the enclosing top-level function (closures included)
	table := map[string]string{
		"visor.Visor.createBlockFromTxns":       "0.Config.CreateBlockVerifyTxn",
		"visor.Visor.RefreshUnconfirmed":        "0.Config.UnconfirmedVerifyTxn",
		"visor.Visor.InjectForeignTransaction":  "0.Config.UnconfirmedVerifyTxn",
		"visor.Visor.InjectUserTransactionTx":   "params.UserVerifyTxn",
		"visor.Visor.VerifyTxnVerbose":          "params.UserVerifyTxn",
		"visor.Visor.WalletSignTransaction":     "params.UserVerifyTxn",
		"visor.Visor.createTransactionTx":       "params.UserVerifyTxn",
		"visor.Visor.walletCreateTransactionTx": "params.UserVerifyTxn",
	}
	hit := map[string]bool{}
	n := 0
	isVP := func(t types.Type) bool {
		nt, ok := t.(*types.Named)
		return ok && nt.Obj().Name() == "VerifyTxn" && nt.Obj().Pkg() != nil && strings.HasSuffix(nt.Obj().Pkg().Path(), "/params")
	}
	for _, fn := range r.P.ModFns {
		name := FnName(fn)
		if !strings.HasPrefix(name, "visor.") {
			continue
		}
		ff := r.P.Facts(fn)
		for _, b := range fn.Blocks {
			for _, in := range b.Instrs {
				ci, ok := in.(ssa.CallInstruction)
				if !ok {
					continue
				}
				for _, a := range ci.Common().Args {
					if !isVP(a.Type()) {
						continue
					}
					// methods of VerifyTxn itself (Validate, MaxDropletDivisor) are not verification sites
					if cal := ci.Common().StaticCallee(); cal != nil && cal.Signature.Recv() != nil && isVP(cal.Signature.Recv().Type()) {
						continue
					}
					n++
					t := ff.Term(a)
					root := name
					// a site inside a single-use helper belongs to the helper's caller
					if owner, _ := r.P.attribute(fn, b); owner != fn {
						if subst, _, ok := r.helperChain(owner, fn); ok {
							t = subst(t)
							root = FnName(owner)
						}
					}
					if k := strings.Index(root, "$"); k > 0 {
						root = root[:k]
					}
					want, listed := table[root]
					hit[root] = hit[root] || listed
					passthrough := ownParamRe.MatchString(t) // "$k": the function's own parameter handed on
					ok := passthrough || listed && (t == want || strings.HasSuffix(t, "$"+want) || strings.HasSuffix(t, "^"+want))
					d := "passes " + t
					if listed {
						d += ", the reviewed parameter set for this site is " + want
					} else {
						d += "; the site is not in the reviewed table"
					}
					r.Check(rule, name+" -> "+calleeName(ci.Common())+": verification parameter set", r.P.Pos(ci.Pos()), ok, d)
				}
			}
		}
	}
	for k := range table {
		r.Check(rule, "reviewed verification site "+k+" exists", "", hit[k], "anchor-unresolved: the site passes no params.VerifyTxn any more")
	}
	r.Units["verify-params call sites"] += n
	// the node's settings reach the visor configuration slot of the same name
	const cv = "skycoin.Coin.ConfigureVisor"
	r.RequireStore(rule, cv, "block-creation parameters = configured block-creation parameters", "*.CreateBlockVerifyTxn := $0.config.Node.CreateBlockVerifyTxn")
	r.RequireStore(rule, cv, "unconfirmed parameters = configured unconfirmed parameters", "*.UnconfirmedVerifyTxn := $0.config.Node.UnconfirmedVerifyTxn")
	_, bad, pos := crossedFieldCopies(r.P, "skycoin.", "visor.")
	for i, b := range bad {
		r.Check(rule, "configuration copy: "+b, r.P.Pos(pos[i].Pos()), false, "a parameter set is taken from its sibling setting")
	}
	if n < 10 {
		r.Fail(rule, "verification parameter sites", "", fmt.Sprintf("anchor-unresolved: found %d call sites passing a params.VerifyTxn, hand-confirmed minimum is 10", n))
	}
}

var ownParamRe = regexp.MustCompile(`^\$\d+$`)

// ruleNoStateBesideTx (C04): everything block execution changes lives in the database transaction, so that a
// rollback undoes all of it.  A method of the chain/pool/history accessors that runs inside a transaction
// (it takes a *dbutil.Tx) therefore never writes to memory that outlives the call: no store through its
// receiver or another pointer parameter, no store to a package-level variable.  Decoding into a caller's
// object (parameters of the generated decoders) and the bolt API itself are outside the scope.
func ruleNoStateBesideTx(r *Run, rule string) {
	n := 0
	isTx := func(t types.Type) bool {
		p, ok := t.(*types.Pointer)
		if !ok {
			return false
		}
		nt, ok := p.Elem().(*types.Named)
		return ok && nt.Obj().Name() == "Tx" && nt.Obj().Pkg() != nil && strings.HasSuffix(nt.Obj().Pkg().Path(), "/dbutil")
	}
	for _, fn := range r.P.ModFns {
		name := FnName(fn)
		if !(strings.HasPrefix(name, "visor/blockdb.") || strings.HasPrefix(name, "visor/historydb.") || strings.HasPrefix(name, "visor.Blockchain.") || strings.HasPrefix(name, "visor.UnconfirmedTransactionPool.") || strings.HasPrefix(name, "visor.unconfirmedTxns.") || strings.HasPrefix(name, "visor.txUnspents.")) {
			continue
		}
		if fn.Parent() != nil || fn.Signature.Recv() == nil {
			continue
		}
		hasTx := false
		for _, p := range fn.Params {
			if isTx(p.Type()) {
				hasTx = true
			}
		}
		if !hasTx {
			continue
		}
		n++
		ff := r.P.Facts(fn)
		bad, pos := "", fn.Pos()
		for _, b := range fn.Blocks {
			for _, in := range b.Instrs {
				switch x := in.(type) {
				case *ssa.Store:
					root := x.Addr
					for d := 0; d < 20; d++ {
						switch y := root.(type) {
						case *ssa.FieldAddr:
							root = y.X
							continue
						case *ssa.IndexAddr:
							root = y.X
							continue
						}
						break
					}
					if _, isG := root.(*ssa.Global); isG {
						bad, pos = "store to package variable "+ff.Term(x.Addr), x.Pos()
					}
					if p, isP := root.(*ssa.Parameter); isP && len(fn.Params) > 0 && p == fn.Params[0] {
						bad, pos = "store to receiver state "+ff.Term(x.Addr), x.Pos()
					}
					if u, isU := root.(*ssa.UnOp); isU {
						// a field of the receiver that is itself a pointer: *recv.f = ...
						if fa, ok := u.X.(*ssa.FieldAddr); ok {
							if p, isP := fa.X.(*ssa.Parameter); isP && len(fn.Params) > 0 && p == fn.Params[0] {
								bad, pos = "store through receiver field "+ff.Term(x.Addr), x.Pos()
							}
						}
					}
				case *ssa.MapUpdate:
					t := ff.Term(x.Map)
					if strings.HasPrefix(t, "$0.") {
						bad, pos = "update of receiver map "+t, x.Pos()
					}
				}
			}
		}
		r.Check(rule, name+": keeps no state beside the database transaction", r.P.Pos(pos), bad == "", bad+": memory written inside a transaction is not undone when the transaction rolls back")
	}
	r.Units["transactional accessor methods"] += n
	if n < 100 {
		r.Fail(rule, "transactional accessor methods", "", fmt.Sprintf("anchor-unresolved: found %d methods taking a *dbutil.Tx, hand-confirmed minimum is 100", n))
	}
}

// ruleRecoverWalletOptions (C17/C19): both wallets RecoverWallet builds (the fingerprint probe and the
// replacement) are derived from the caller's seed and seed passphrase with the type and coin of the wallet
// being recovered; the replacement is encrypted with the caller's password.
func ruleRecoverWalletOptions(r *Run, rule string) {
	const f = "wallet.Service.RecoverWallet"
	fn := r.fn(rule, f)
	if fn == nil {
		return
	}
	sites := r.CallSites(fn, "wallet.Service.createWallet")
	r.Check(rule, f+": builds the probe and the replacement wallet", r.P.Pos(fn.Pos()), len(sites) == 2, fmt.Sprint(len(sites)))
	w := "wallet.Service.getWallet($0, $1)#0"
	for i, cs := range sites {
		t := r.argTerm(cs, 2)
		want := []string{"Seed: $2,", "SeedPassphrase: $3,", "Type: iface:wallet.Wallet.Type*(" + w + ")", " Coin: iface:wallet.Wallet.Coin*(" + w + ")", "Bip44Coin: iface:wallet.Wallet.Bip44Coin*(" + w + ")"}
		if i == 1 {
			want = append(want, "Password: $4,", "CryptoType: iface:wallet.Wallet.CryptoType*("+w+")")
		}
		for _, x := range want {
			r.Check(rule, fmt.Sprintf("%s: wallet #%d is created with %s", f, i+1, strings.TrimSuffix(x, ",")), r.P.Pos(cs.Pos()), glob("*"+x+"*", t+","), trunc(t, 300))
		}
		r.Check(rule, fmt.Sprintf("%s: wallet #%d is created under the recovered wallet's name", f, i+1), r.P.Pos(cs.Pos()), r.argTerm(cs, 1) == "$1", r.argTerm(cs, 1))
	}
}

// crossedFieldCopies: stores "x.F = [conv] y.G" where F != G although y also has a field F and x also has a
// field G (of matching types): a configuration value copied into its sibling's slot.  Returns the number of
// field-to-field copies inspected and the crossed ones.
func crossedFieldCopies(p *Program, prefixes ...string) (n int, bad []string, pos []ssa.Instruction) {
	fieldOf := func(v ssa.Value) (*types.Struct, int, bool) {
		for d := 0; d < 4; d++ {
			switch x := v.(type) {
			case *ssa.Convert:
				v = x.X
				continue
			case *ssa.ChangeType:
				v = x.X
				continue
			}
			break
		}
		switch x := v.(type) {
		case *ssa.UnOp:
			if fa, ok := x.X.(*ssa.FieldAddr); ok {
				if st := derefStruct(fa.X.Type()); st != nil {
					return st, fa.Field, true
				}
			}
		case *ssa.Field:
			if st, ok := x.X.Type().Underlying().(*types.Struct); ok {
				return st, x.Field, true
			}
		}
		return nil, 0, false
	}
	has := func(st *types.Struct, name string) (types.Type, bool) {
		for i := 0; i < st.NumFields(); i++ {
			if st.Field(i).Name() == name {
				return st.Field(i).Type(), true
			}
		}
		return nil, false
	}
	for _, fn := range p.ModFns {
		name := FnName(fn)
		ok := len(prefixes) == 0
		for _, pre := range prefixes {
			if strings.HasPrefix(name, pre) {
				ok = true
			}
		}
		if !ok {
			continue
		}
		for _, b := range fn.Blocks {
			for _, in := range b.Instrs {
				st, isSt := in.(*ssa.Store)
				if !isSt {
					continue
				}
				fa, isFA := st.Addr.(*ssa.FieldAddr)
				if !isFA {
					continue
				}
				dst := derefStruct(fa.X.Type())
				src, g, okSrc := fieldOf(st.Val)
				if dst == nil || !okSrc {
					continue
				}
				n++
				F, G := dst.Field(fa.Field).Name(), src.Field(g).Name()
				if strings.EqualFold(F, G) || types.Identical(src, dst) {
					continue // a clamp inside one object (a.X = a.Y) is not a pass-through copy
				}
				tF, srcHasF := has(src, F)
				if !srcHasF {
					tF, srcHasF = has(src, strings.ToLower(F[:1])+F[1:]) // the unexported twin (blockchainPubkey for BlockchainPubkey)
				}
				tG, dstHasG := has(dst, G)
				if srcHasF && types.Identical(tF, src.Field(g).Type()) && strings.HasPrefix(name, "skycoin.") {
					// start-up plumbing: the source object has a setting of exactly the destination's name and type,
					// yet another setting is copied
					bad = append(bad, fmt.Sprintf("%s: field %s is set from the configuration's %s although the configuration has a setting named %s", name, F, G, F))
					pos = append(pos, in)
					continue
				}
				if srcHasF && dstHasG && types.Identical(tF, src.Field(g).Type()) && types.Identical(tG, dst.Field(fa.Field).Type()) {
					bad = append(bad, fmt.Sprintf("%s: field %s is set from the other object's %s although that object has a field %s", name, F, G, F))
					pos = append(pos, in)
				}
			}
		}
	}
	return
}

// ruleConfigPassthrough: the configured limits reach the component that enforces them unchanged.
func ruleConfigPassthrough(r *Run, rule string) {
	n, bad, pos := crossedFieldCopies(r.P, "skycoin.", "daemon.", "visor.", "api.")
	r.Units["field-to-field copies inspected"] += n
	for i, b := range bad {
		r.Check(rule, "configuration copy: "+b, r.P.Pos(pos[i].Pos()), false, "a limit is taken from its sibling setting")
	}
	if n < 40 {
		r.Fail(rule, "field-to-field copies", "", fmt.Sprintf("anchor-unresolved: %d copies found, hand-confirmed minimum is 40", n))
	}
	r.Pass(rule, "no configuration value is copied into a sibling's slot", "", fmt.Sprintf("%d field-to-field copies inspected", n))
	const cd = "skycoin.Coin.ConfigureDaemon"
	r.RequireStore(rule, cd, "gnet incoming limit = configured incoming limit", "*.Pool.MaxIncomingMessageLength := $0.config.Node.MaxIncomingMessageLength")
	r.RequireStore(rule, cd, "gnet outgoing limit = configured outgoing limit", "*.Pool.MaxOutgoingMessageLength := $0.config.Node.MaxOutgoingMessageLength")
	r.RequireStore(rule, cd, "daemon outgoing limit = configured outgoing limit", "*.Daemon.MaxOutgoingMessageLength := uint64($0.config.Node.MaxOutgoingMessageLength)", "*.Daemon.MaxOutgoingMessageLength := $0.config.Node.MaxOutgoingMessageLength")
	r.RequireStore(rule, cd, "daemon incoming limit = configured incoming limit", "*.Daemon.MaxIncomingMessageLength := uint64($0.config.Node.MaxIncomingMessageLength)", "*.Daemon.MaxIncomingMessageLength := $0.config.Node.MaxIncomingMessageLength")
	r.RequireStore(rule, "daemon.NewPool", "connection pool incoming limit = pool config", "*.MaxIncomingMessageLength := $0.MaxIncomingMessageLength")
	r.RequireStore(rule, "daemon.NewPool", "connection pool outgoing limit = pool config", "*.MaxOutgoingMessageLength := $0.MaxOutgoingMessageLength")
}

// floatUses: instructions of the functions with one of the given name prefixes that produce or consume a
// floating-point value (binary floating point cannot represent decimal droplet amounts exactly).
func floatUses(p *Program, prefixes ...string) (nFns int, uses []ssa.Instruction) {
	isFloat := func(t types.Type) bool {
		if t == nil {
			return false
		}
		switch u := t.Underlying().(type) {
		case *types.Basic:
			return u.Info()&(types.IsFloat|types.IsComplex) != 0
		case *types.Pointer:
			if b, ok := u.Elem().Underlying().(*types.Basic); ok {
				return b.Info()&(types.IsFloat|types.IsComplex) != 0
			}
		}
		return false
	}
	for _, fn := range p.ModFns {
		name := FnName(fn)
		ok := false
		for _, pre := range prefixes {
			if strings.HasPrefix(name, pre) {
				ok = true
			}
		}
		if !ok {
			continue
		}
		nFns++
		for _, b := range fn.Blocks {
			for _, in := range b.Instrs {
				if v, isV := in.(ssa.Value); isV && isFloat(v.Type()) {
					uses = append(uses, in)
					continue
				}
				for _, op := range in.Operands(nil) {
					if op != nil && *op != nil && isFloat((*op).Type()) {
						uses = append(uses, in)
						break
					}
				}
			}
		}
	}
	return
}

// loopAliasedAddrs: a variable declared outside a loop, reassigned in every iteration, whose address is stored
// into memory inside that loop (appended to a slice, put into a map or a field): every stored pointer refers to
// the same variable, so all of them end up describing the last iteration's value.
func loopAliasedAddrs(p *Program, prefixes ...string) (nLoops int, bad []ssa.Instruction) {
	for _, fn := range p.ModFns {
		name := FnName(fn)
		ok := false
		for _, pre := range prefixes {
			if strings.HasPrefix(name, pre) {
				ok = true
			}
		}
		if !ok || len(fn.Blocks) == 0 {
			continue
		}
		ff := p.Facts(fn)
		if len(ff.loops) == 0 {
			continue
		}
		nLoops += len(ff.loops)
		for _, b := range fn.Blocks {
			for _, in := range b.Instrs {
				al, isAl := in.(*ssa.Alloc)
				if !isAl || !al.Heap || al.Referrers() == nil {
					continue
				}
				for _, lp := range ff.loops {
					if lp.Blocks[al.Block()] {
						continue // a fresh variable per iteration
					}
					assigned, retained := false, ssa.Instruction(nil)
					for _, ref := range *al.Referrers() {
						if ref.Block() == nil || !lp.Blocks[ref.Block()] {
							continue
						}
						switch x := ref.(type) {
						case *ssa.Store:
							if x.Addr == ssa.Value(al) {
								assigned = true
							}
							if x.Val == ssa.Value(al) {
								retained = x
							}
						case *ssa.MapUpdate:
							if x.Value == ssa.Value(al) || x.Key == ssa.Value(al) {
								retained = x
							}
						}
					}
					if assigned && retained != nil {
						bad = append(bad, retained)
					}
				}
			}
		}
	}
	return
}

// ruleNoCrossedConfig: the start-up plumbing (package skycoin and the component constructors) copies every
// setting into the slot of the same name; no setting is taken from a sibling.
func ruleNoCrossedConfig(r *Run, rule string) {
	n, bad, pos := crossedFieldCopies(r.P, "skycoin.", "daemon.", "visor.", "api.", "wallet.")
	r.Units["field-to-field copies inspected"] += n
	for i, b := range bad {
		r.Check(rule, "configuration copy: "+b, r.P.Pos(pos[i].Pos()), false, "a setting is taken from its sibling")
	}
	if n < 40 {
		r.Fail(rule, "field-to-field copies", "", fmt.Sprintf("anchor-unresolved: %d copies found, hand-confirmed minimum is 40", n))
	}
	r.Pass(rule, "no configuration value is copied into a sibling's slot", "", fmt.Sprintf("%d field-to-field copies inspected", n))
}

// ruleEntryVerify (C13/C17): the entry validity predicates that guard loading and AddEntry: an entry verifies
// only if its public key is the key of its secret, the key is valid, and the address is the address of that
// public key (a wallet never holds, and so never signs with, a key that does not own the entry's address).
func ruleEntryVerify(r *Run, R2 string) {
	// the entry validity predicates that guard loading and AddEntry: an entry verifies only if its public key is
	// the key of its secret, the key is valid, and the address is the address of that public key
	r.RequireOnSuccess(R2, "wallet.Entry.Verify",
		req("public key derives from the secret key", "cipher.PubKeyFromSecKey($0.Secret)#0 == $0.Public"),
		req("public key and address verified", "ok(wallet.Entry.VerifyPublic($0))"))
	r.RequireOnSuccess(R2, "wallet.Entry.VerifyPublic",
		req("public key valid", "ok(cipher.PubKey.Verify($0.Public))"),
		req("address belongs to the public key", "ok(iface:cipher.Addresser.Verify($0.Address, $0.Public))"))
	r.RequireOnSuccess(R2, "cipher.Address.Verify",
		req("version 0", "$0.Version == 0"), req("address key is the hash of the public key", "$0.Key == cipher.PubKeyRipemd160($1)"))
}

// ruleSignedHashAcceptors (C04/C10/C33): the publisher-signature acceptor accepts only a well-formed (low s,
// recovery id < 4) signature that recovers to, and verifies under, the given key.
func ruleSignedHashAcceptors(r *Run, rule string) {
	r.RequireOnSuccess(rule, "cipher.VerifyPubKeySignedHash",
		req("recovered key equals the given key", "cipher.PubKeyFromSig($1, $2)#0 == $0"),
		req("signature well-formed (low s, recid)", "cipher/secp256k1-go.VerifySignatureValidity($1[:]) == 1"),
		req("signature verifies", "cipher/secp256k1-go.VerifySignature*($2[:], $1[:], $0[:]) == 1"))
	lowS0 := []string{"($0[32] >> 7) != 1", "($0[32] >> 7) == 0", "$0[32] < 128", "($0[32] & 128) == 0", "$0[32] <= 127"}
	r.RequireOnSuccess(rule, "cipher/secp256k1-go.VerifySignatureValidity",
		req("65 bytes", "len($0) == 65"),
		req("low s only", lowS0...),
		req("recovery id below 4", "$0[64] < 4", "$0[64] <= 3"))
	r.RequireOnSuccess(rule, "coin.SignedBlock.VerifySignature", req("checked with the signed-hash acceptor over the header hash", "ok(cipher.VerifyPubKeySignedHash($1, $0.Sig, coin.Block.HashHeader($0.Block)))"))
}

// ruleHoursSpending (C03/C33): VerifyTransactionHoursSpending succeeds only if output hours <= input hours,
// every input counted through the checked fold, and it rejects only for the documented reasons.
func ruleHoursSpending(r *Run, R1 string) {
	r.RequireOnSuccess(R1, "coin.VerifyTransactionHoursSpending",
		req("output hours do not exceed input hours", "fold[acc=0; (acc + $2[i].Body.Hours)] <= "+foldHoursIn),
		req("input hours accumulated with overflow check over every input", "forall(i < len($1)): ok(util/mathutil.AddUint64("+foldHoursIn+", φ(0|coin.UxOut.CoinHours($1[i], $0)#0)))"),
		req("the only tolerated CoinHours error is the addition overflow", "forall(i < len($1)): coin.UxOut.CoinHours($1[i], $0)#1 != nil => coin.UxOut.CoinHours($1[i], $0)#1 == coin.ErrAddEarnedCoinHoursAdditionOverflow"))
	r.ExhaustiveRejects(R1, "coin.VerifyTransactionHoursSpending",
		req("tolerated error class", "coin.UxOut.CoinHours($1[i], $0)#1 == coin.ErrAddEarnedCoinHoursAdditionOverflow"),
		req("input sum overflow", "ok(util/mathutil.AddUint64(*"),
		req("hours not created", "fold[acc=0; (acc + $2[i].Body.Hours)] <= *"))
}

// ruleHardBeforeSoft (C06/C11): the combined verifier reports a soft violation only for a transaction that
// already passed the hard rules: before the hard check succeeded it can fail only with the input lookup (a hard
// violation), the head read, or the hard check's own error.  (The unconfirmed pool stores soft-violating
// transactions, so a hard-invalid one classified as soft would enter the pool.)
func ruleHardBeforeSoft(r *Run, rule string) {
	const f = "visor.Blockchain.VerifySingleTxnSoftHardConstraints"
	fn := r.fn(rule, f)
	if fn == nil {
		return
	}
	ff := r.P.Facts(fn)
	n := 0
	for _, e := range ff.Exits() {
		if e.Kind == ExitSuccess || e.Kind == ExitPanic {
			continue
		}
		n++
		var fs []string
		for _, a := range ff.Must(e.Block) {
			fs = append(fs, a.S)
		}
		fs = append(fs, e.Extra...)
		_, hardDone := matchAny([]string{"ok(visor.Blockchain.verifySingleTxnHardConstraints($0, $1, $2, *))"}, fs)
		pre := glob("transaction.NewErrTxnViolatesHardConstraint(iface:visor/blockdb.UnspentPooler.GetArray(*", e.Desc) || glob("visor.Blockchain.Head($0, $1)#1", e.Desc) || glob("visor.Blockchain.verifySingleTxnHardConstraints($0, $1, $2, *", e.Desc)
		r.Check(rule, f+": error return "+trunc(e.Desc, 70)+" is a hard-phase error or follows a successful hard check", r.P.Pos(e.Pos), hardDone || pre,
			"an error is reported before the hard constraints were checked: a hard-invalid transaction would be classified by it")
	}
	r.Check(rule, f+": error returns", r.P.Pos(fn.Pos()), n >= 4, fmt.Sprint(n))
}

// ruleUntransformedText: every call of a text parser passes the text as it was received: no strings.*
// transformation (TrimSpace, Replace, ToLower, ...) sits between the input and the parser, so that the parser's
// own canonical-form / exact-syntax decisions are the decisions of every entry point.
func ruleUntransformedText(r *Run, rule string, min int, callees ...string) {
	n := 0
	for _, fn := range r.P.ModFns {
		ff := r.P.Facts(fn)
		for _, callee := range callees {
			for _, cs := range r.CallSites(fn, callee) {
				n++
				t := ff.Term(cs.Common().Args[0])
				bad := strings.Contains(t, "strings.") || strings.Contains(t, "bytes.Trim") || strings.Contains(t, "bytes.Replace")
				if want, ok := reviewedTextTransforms[FnName(fn)+" -> "+callee]; ok && glob(want, t) {
					bad = false
				}
				r.Check(rule, FnName(fn)+" hands "+callee+" the text as received", r.P.Pos(cs.Pos()), !bad, "the argument is "+trunc(t, 160)+": text the parser itself would refuse (or read differently) is rewritten before it is parsed")
			}
		}
	}
	r.Units["text parser call sites"] += n
	if n < min {
		r.Fail(rule, "call sites of "+strings.Join(callees, ", "), "", fmt.Sprintf("anchor-unresolved: %d call sites found, hand-confirmed minimum is %d", n, min))
	}
}

// reviewed exceptions of ruleUntransformedText, one reason per line
var reviewedTextTransforms = map[string]string{
	// CSV files: the address cell of a hand-written row is trimmed of surrounding blanks before it is parsed (CLI only)
	"cli.parseReceiversFromCSV -> cipher.DecodeBase58Address":   "strings.TrimSpace($0[i][0])",
	"cli.parseSendAmountsFromCSV -> cipher.DecodeBase58Address": "strings.TrimSpace($0[i][0])",
}

// shallowClones: clone methods (name "clone"/"Clone") of the given packages whose struct result shares a
// slice, map or pointer field with the receiver: the field is either never assigned in a result that starts as
// a copy of the receiver, or assigned the receiver's own field value.
func shallowClones(p *Program, prefixes ...string) (n int, bad []string, pos []ssa.Instruction) {
	isRef := func(t types.Type) bool {
		switch t.Underlying().(type) {
		case *types.Slice, *types.Map, *types.Pointer, *types.Chan:
			return true
		}
		return false
	}
	for _, fn := range p.ModFns {
		name := FnName(fn)
		ok := false
		for _, pre := range prefixes {
			if strings.HasPrefix(name, pre) {
				ok = true
			}
		}
		if !ok || !strings.EqualFold(fn.Name(), "clone") || fn.Signature.Recv() == nil || len(fn.Params) == 0 {
			continue
		}
		recv := fn.Params[0]
		for _, b := range fn.Blocks {
			ret, isRet := b.Instrs[len(b.Instrs)-1].(*ssa.Return)
			if !isRet || len(ret.Results) != 1 {
				continue
			}
			// the struct object whose value (or address) is returned
			var obj *ssa.Alloc
			switch x := ret.Results[0].(type) {
			case *ssa.UnOp:
				obj, _ = x.X.(*ssa.Alloc)
			case *ssa.Alloc:
				obj = x
			}
			if obj == nil || obj.Referrers() == nil {
				continue
			}
			st := derefStruct(obj.Type())
			if st == nil {
				continue
			}
			n++
			// does the object start as a copy of the receiver?
			fromRecv := false
			assigned := map[int]ssa.Value{}
			for _, ref := range *obj.Referrers() {
				switch x := ref.(type) {
				case *ssa.Store:
					if x.Addr == ssa.Value(obj) {
						if x.Val == ssa.Value(recv) {
							fromRecv = true
						}
						if u, ok := x.Val.(*ssa.UnOp); ok && u.X == ssa.Value(recv) {
							fromRecv = true
						}
					}
				case *ssa.FieldAddr:
					if x.Referrers() != nil {
						for _, r2 := range *x.Referrers() {
							if s2, ok := r2.(*ssa.Store); ok && s2.Addr == ssa.Value(x) {
								assigned[x.Field] = s2.Val
							}
						}
					}
				}
			}
			for i := 0; i < st.NumFields(); i++ {
				if !isRef(st.Field(i).Type()) {
					continue
				}
				v, has := assigned[i]
				shared := false
				if !has {
					shared = fromRecv
				} else {
					// assigned the receiver's own field: recv.f or (*recv).f
					switch y := v.(type) {
					case *ssa.Field:
						shared = y.X == ssa.Value(recv) && y.Field == i
					case *ssa.UnOp:
						if fa, ok := y.X.(*ssa.FieldAddr); ok {
							if fa.X == ssa.Value(recv) && fa.Field == i {
								shared = true
							}
							if al, ok := fa.X.(*ssa.Alloc); ok && al == obj && fromRecv {
								shared = true
							}
						}
					}
				}
				if shared {
					bad = append(bad, fmt.Sprintf("%s: field %s of the clone shares the receiver's %s", name, st.Field(i).Name(), st.Field(i).Type().String()))
					pos = append(pos, ret)
				}
			}
		}
	}
	return
}

// ruleTransactionIsLocked (C05/C06/C11): the locked-output soft rule looks at every input.
func ruleTransactionIsLocked(r *Run, R1 string) {
	// TransactionIsLocked: true iff some input address is in the locked set; false only after scanning all
	fn := r.fn(R1, "transaction.TransactionIsLocked")
	if fn != nil {
		ff := r.P.Facts(fn)
		for _, ex := range ff.Exits() {
			var fs []string
			for _, a := range ff.Must(ex.Block) {
				fs = append(fs, a.S)
			}
			switch ex.Desc {
			case "true":
				_, m := matchAny([]string{"lookup(set{params.Distribution.LockedAddresses($0)[i]}[cipher.Address.String($1[i].Body.Address)])#1"}, fs)
				r.Check(R1, "TransactionIsLocked: true only for an input owned by a locked address", r.P.Pos(ex.Pos), m, "")
			case "false":
				_, m := matchAny([]string{"forall(i < len($1)): !lookup(set{params.Distribution.LockedAddresses($0)[i]}[cipher.Address.String($1[i].Body.Address)])#1"}, fs)
				r.Check(R1, "TransactionIsLocked: false only after every input was checked against the full locked set", r.P.Pos(ex.Pos), m, "")
			default:
				r.Check(R1, "TransactionIsLocked: unexpected return "+ex.Desc, r.P.Pos(ex.Pos), false, "")
			}
		}
	}
}

// ruleUserConstraints (C06/C11): the user-level rule refuses a transaction when any of its outputs pays the
// null address (every output is examined).
func ruleUserConstraints(r *Run, rule string) {
	r.RequireOnSuccess(rule, "transaction.VerifySingleTxnUserConstraints",
		req("no output pays the null address (all outputs examined)", "forall(i < len($0.Out)): !cipher.Address.Null($0.Out[i].Address)"))
	r.RejectsAre(rule, "transaction.VerifySingleTxnUserConstraints", 1, "transaction.NewErrTxnViolatesUserConstraint(*)")
}

// ruleKnownTxnVerdictRefreshed (C06/C11): re-injecting a transaction the pool already holds overwrites its
// stored soft-rule verdict with the fresh one, unconditionally (valid again after the head moved, invalid again
// after the rules tightened).
func ruleKnownTxnVerdictRefreshed(r *Run, rule string) {
	parent := r.fn(rule, "visor.UnconfirmedTransactionPool.InjectTransaction")
	if parent == nil {
		return
	}
	n := 0
	for _, f := range r.P.ModFns {
		if f.Parent() != parent {
			continue
		}
		for _, b := range f.Blocks {
			for _, in := range b.Instrs {
				st, ok := in.(*ssa.Store)
				if !ok {
					continue
				}
				fa, ok := st.Addr.(*ssa.FieldAddr)
				if !ok {
					continue
				}
				sty := derefStruct(fa.X.Type())
				if sty == nil || sty.Field(fa.Field).Name() != "IsValid" {
					continue
				}
				n++
				uncond := true
				for _, rb := range f.Blocks {
					if _, isRet := rb.Instrs[len(rb.Instrs)-1].(*ssa.Return); isRet && rb != b && !b.Dominates(rb) {
						uncond = false
					}
				}
				_, fromFree := st.Val.(*ssa.UnOp)
				r.Check(rule, FnName(f)+": the stored verdict of a known transaction is overwritten with the fresh verdict on every path", r.P.Pos(in.Pos()), uncond && fromFree,
					"the verdict is updated only under a condition: a transaction that passes the soft rules now stays recorded as invalid (or the reverse)")
			}
		}
	}
	r.Check(rule, "visor.UnconfirmedTransactionPool.InjectTransaction: the known-transaction branch rewrites IsValid", r.P.Pos(parent.Pos()), n == 1, fmt.Sprint(n))
}
