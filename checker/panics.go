package main

import (
	"go/types"
	"sort"
	"strings"

	"golang.org/x/tools/go/ssa"
)

// Panic reachability (engine E12).

type panicSite struct {
	Fn   *ssa.Function
	In   ssa.Instruction
	Desc string
	Path string
}

// explicitPanics lists the explicit panic sites of fn (panic builtin, log/logger Panic*/Fatal*).
func (p *Program) explicitPanics(fn *ssa.Function) []panicSite {
	var out []panicSite
	ff := p.Facts(fn)
	for _, b := range fn.Blocks {
		for _, in := range b.Instrs {
			switch x := in.(type) {
			case *ssa.Panic:
				out = append(out, panicSite{Fn: fn, In: x, Desc: "panic(" + trunc(ff.Term(x.X), 80) + ")"})
			case *ssa.Call:
				if isNoReturnCallee(&x.Call) {
					msg := ""
					if len(x.Call.Args) > 0 {
						msg = trunc(ff.Term(x.Call.Args[len(x.Call.Args)-1]), 80)
					}
					out = append(out, panicSite{Fn: fn, In: x, Desc: calleeName(&x.Call) + "(" + msg + ")"})
				}
			}
		}
	}
	return out
}

// httpHandlerRoots: functions of package api with the http handler signature.
func (p *Program) httpHandlerRoots() []*ssa.Function {
	var out []*ssa.Function
	for _, fn := range p.ModFns {
		if !strings.HasPrefix(FnName(fn), "api.") {
			continue
		}
		sig := fn.Signature
		if sig.Params().Len() == 2 && sig.Results().Len() == 0 &&
			typeShort(sig.Params().At(0).Type()) == "http.ResponseWriter" && typeShort(sig.Params().At(1).Type()) == "*http.Request" {
			out = append(out, fn)
		}
	}
	return out
}

// reachablePanics: explicit panic sites in module functions VTA-reachable from roots.
func (p *Program) reachablePanics(roots []*ssa.Function) ([]panicSite, int) {
	parent := reachableFrom(p.VTA(), roots, func(f *ssa.Function) bool { return !InModule(f) })
	var fns []*ssa.Function
	for f := range parent {
		if InModule(f) && f.Blocks != nil {
			fns = append(fns, f)
		}
	}
	sort.Slice(fns, func(i, j int) bool { return fnLess(fns[i], fns[j]) })
	var out []panicSite
	for _, f := range fns {
		if p.hasRecover(f) {
			continue
		}
		for _, s := range p.explicitPanics(f) {
			s.Path = pathTo(parent, f)
			out = append(out, s)
		}
	}
	return out, len(fns)
}

func (p *Program) hasRecover(f *ssa.Function) bool {
	for _, b := range f.Blocks {
		for _, in := range b.Instrs {
			if d, ok := in.(*ssa.Defer); ok {
				if mc, ok := d.Call.Value.(*ssa.MakeClosure); ok {
					for _, cb := range mc.Fn.(*ssa.Function).Blocks {
						for _, ci := range cb.Instrs {
							if c, ok := ci.(*ssa.Call); ok && calleeName(&c.Call) == "recover" {
								return true
							}
						}
					}
				}
			}
		}
	}
	return false
}

var _ = types.Universe
