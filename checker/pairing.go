package main

import (
	"go/token"
	"go/types"
	"strings"

	"golang.org/x/tools/go/ssa"
)

// Pairing rules (engine E9): WaitGroup Add/Done, channel range/close.

// mustExecOnAllExits: every path from the entry of g to a return/panic passes an
// instruction satisfying isTarget (a call or a defer of it).
func mustExecOnAllExits(g *ssa.Function, isTarget func(ssa.Instruction) bool) (bool, token.Pos) {
	target := map[*ssa.BasicBlock]bool{}
	for _, b := range g.Blocks {
		for _, in := range b.Instrs {
			if isTarget(in) {
				target[b] = true
			}
		}
	}
	if len(target) == 0 {
		return false, g.Pos()
	}
	seen := map[*ssa.BasicBlock]bool{}
	stack := []*ssa.BasicBlock{g.Blocks[0]}
	for len(stack) > 0 {
		n := stack[len(stack)-1]
		stack = stack[:len(stack)-1]
		if seen[n] || target[n] || n == g.Recover {
			continue
		}
		seen[n] = true
		if len(n.Succs) == 0 {
			last := n.Instrs[len(n.Instrs)-1]
			return false, last.Pos()
		}
		stack = append(stack, n.Succs...)
	}
	return true, token.NoPos
}

func callOrDeferOf(in ssa.Instruction, name string, argTerm func(ssa.Value) string, want string) bool {
	var cc *ssa.CallCommon
	switch x := in.(type) {
	case *ssa.Call:
		cc = &x.Call
	case *ssa.Defer:
		cc = &x.Call
	default:
		return false
	}
	if calleeName(cc) != name {
		return false
	}
	if want == "" {
		return true
	}
	return len(cc.Args) > 0 && argTerm(cc.Args[0]) == want
}

type pairResult struct {
	Desc string
	Pos  token.Pos
	OK   bool
	Why  string
}

// goroutinePairing checks, for fn and its nested closures: every goroutine started
// after wg.Add(k) calls wg.Done on all its exits; every channel that a goroutine of
// fn ranges over is closed on all exits of the goroutine that closes it.
func (p *Program) goroutinePairing(fn *ssa.Function) []pairResult {
	var out []pairResult
	all := []*ssa.Function{fn}
	var collect func(f *ssa.Function)
	collect = func(f *ssa.Function) {
		for _, a := range f.AnonFuncs {
			all = append(all, a)
			collect(a)
		}
	}
	collect(fn)
	ranged := map[string]token.Pos{} // channel name -> position of the range
	closers := map[string][]*ssa.Function{}
	closedByCallee := map[string]bool{}
	for _, f := range all {
		ff := p.Facts(f)
		for _, b := range f.Blocks {
			for _, in := range b.Instrs {
				// range over channel: v, ok := <-ch in a loop header  (UnOp ARROW CommaOk)
				if u, ok := in.(*ssa.UnOp); ok && u.Op == token.ARROW && u.CommaOk && ff.innermost[b] != nil {
					ranged[varName(ff, u.X)] = u.Pos()
				}
				if cc := commonOf(in); cc != nil && calleeName(cc) == "close" && len(cc.Args) == 1 {
					n := varName(ff, cc.Args[0])
					closers[n] = append(closers[n], f)
				}
				if c, ok := in.(*ssa.Call); ok {
					if callee := c.Call.StaticCallee(); callee != nil && callee.Blocks != nil && InModule(callee) {
						cf := p.Facts(callee)
						for k, a := range c.Call.Args {
							if _, isChan := a.Type().Underlying().(*types.Chan); !isChan || k >= len(callee.Params) {
								continue
							}
							pname := callee.Params[k].Name()
							okc, _ := mustExecOnAllExits(callee, func(i ssa.Instruction) bool {
								return callOrDeferOf(i, "close", func(v ssa.Value) string { return varName(cf, v) }, pname)
							})
							if okc {
								// the callee closes it on all exits; the caller must reach this call on all its exits
								n := varName(ff, a)
								okReach, _ := mustExecOnAllExits(f, func(i ssa.Instruction) bool { return i == in })
								if okReach {
									closedByCallee[n] = true
								}
							}
						}
					}
				}
				g, isGo := in.(*ssa.Go)
				if !isGo {
					continue
				}
				mc, ok := g.Call.Value.(*ssa.MakeClosure)
				if !ok {
					continue
				}
				gf := mc.Fn.(*ssa.Function)
				// nearest preceding wg.Add in this block or a dominator
				wg := ""
				for bb := b; bb != nil && wg == ""; bb = bb.Idom() {
					for i := len(bb.Instrs) - 1; i >= 0; i-- {
						if bb == b && bb.Instrs[i].Pos() > in.Pos() && in.Pos().IsValid() {
							continue
						}
						if c, ok := bb.Instrs[i].(*ssa.Call); ok && calleeName(&c.Call) == "sync.WaitGroup.Add" {
							wg = varName(ff, c.Call.Args[0])
							break
						}
					}
				}
				if wg == "" {
					continue
				}
				gff := p.Facts(gf)
				ok2, pos := mustExecOnAllExits(gf, func(i ssa.Instruction) bool {
					return callOrDeferOf(i, "sync.WaitGroup.Done", func(v ssa.Value) string { return varName(gff, v) }, wg)
				})
				why := "wg.Done is executed on every exit path"
				if !ok2 {
					why = "an exit of the goroutine at " + p.Pos(pos) + " is reachable without " + wg + ".Done(): the waiter blocks forever"
				}
				out = append(out, pairResult{Desc: FnName(gf) + ": goroutine counted by " + wg + ".Add calls Done on all paths", Pos: g.Pos(), OK: ok2, Why: why})
			}
		}
	}
	for ch, pos := range ranged {
		cl := closers[ch]
		if len(cl) == 0 && closedByCallee[ch] {
			out = append(out, pairResult{Desc: FnName(fn) + ": channel " + ch + " (ranged over by a worker) is closed on all exits of the callee it is handed to", Pos: pos, OK: true, Why: "callee closes its parameter by defer / on every exit, and the call is reached on every exit of the goroutine"})
			continue
		}
		if len(cl) == 0 {
			out = append(out, pairResult{Desc: FnName(fn) + ": channel " + ch + " is ranged over but never closed", Pos: pos, OK: false, Why: "the ranging goroutine never terminates"})
			continue
		}
		for _, cf := range cl {
			cff := p.Facts(cf)
			ok2, epos := mustExecOnAllExits(cf, func(i ssa.Instruction) bool {
				return callOrDeferOf(i, "close", func(v ssa.Value) string { return varName(cff, v) }, ch)
			})
			why := "close is executed on every exit path of the closing goroutine"
			if !ok2 {
				why = "an exit of " + FnName(cf) + " at " + p.Pos(epos) + " is reachable without close(" + ch + "): goroutines ranging over it block forever"
			}
			out = append(out, pairResult{Desc: FnName(cf) + ": closes " + ch + " (ranged over by a worker) on all paths", Pos: pos, OK: ok2, Why: why})
		}
	}
	return out
}

func commonOf(in ssa.Instruction) *ssa.CallCommon {
	switch x := in.(type) {
	case *ssa.Call:
		return &x.Call
	case *ssa.Defer:
		return &x.Call
	case *ssa.Go:
		return &x.Call
	}
	return nil
}

// chanName normalises local / free variable spellings of the same variable.
func chanName(t string) string {
	for _, p := range []string{"^", "local:", "var:"} {
		t = strings.TrimPrefix(t, p)
	}
	return t
}

// varName renders v in fn with parameters spelled by their source names, so that
// "$0.wg" in a method and "^pool.wg" in its closure coincide as "pool.wg".
func varName(ff *FuncFacts, v ssa.Value) string {
	t := ff.Term(v)
	// captured variables: name them as the enclosing function does ("^$^0.wg" -> "$0.wg" of the parent)
	fnForParams := ff.Fn
	for strings.HasPrefix(t, "^") && fnForParams.Parent() != nil {
		t = strings.TrimPrefix(t, "^")
		t = strings.ReplaceAll(t, "$^", "$")
		fnForParams = fnForParams.Parent()
	}
	t = chanName(t)
	for i, prm := range fnForParams.Params {
		pre := "$" + fmtInt(i)
		if t == pre {
			return prm.Name()
		}
		if strings.HasPrefix(t, pre+".") || strings.HasPrefix(t, pre+"[") {
			return prm.Name() + t[len(pre):]
		}
	}
	return t
}

func fmtInt(n int) string {
	if n == 0 {
		return "0"
	}
	s := ""
	neg := n < 0
	if neg {
		n = -n
	}
	for n > 0 {
		s = string(rune('0'+n%10)) + s
		n /= 10
	}
	if neg {
		s = "-" + s
	}
	return s
}

// lockDiscipline: every method of the named struct type that touches one of the
// protected fields either takes the struct's mutex in its entry block (Lock + a
// deferred Unlock) or is only ever called from methods that do.
type lockResult struct {
	Fn    *ssa.Function
	Field string
	Pos   token.Pos
	OK    bool
	Why   string
}

func (p *Program) lockDiscipline(pkgShort, typeName string, fields []string, lockCallee, unlockCallee string) []lockResult {
	prot := map[string]bool{}
	for _, f := range fields {
		prot[f] = true
	}
	holds := map[*ssa.Function]bool{}
	touches := map[*ssa.Function][]*ssa.FieldAddr{}
	for _, fn := range p.ModFns {
		if !strings.HasPrefix(FnName(fn), pkgShort+".") {
			continue
		}
		for _, b := range fn.Blocks {
			for _, in := range b.Instrs {
				fa, ok := in.(*ssa.FieldAddr)
				if !ok {
					continue
				}
				st := derefStruct(fa.X.Type())
				if st == nil || !prot[st.Field(fa.Field).Name()] {
					continue
				}
				if !strings.HasSuffix(typeShort(fa.X.Type()), pkgShort+"."+typeName) {
					continue
				}
				if _, fresh := fa.X.(*ssa.Alloc); fresh {
					continue // constructor initialising a value nobody else can see yet
				}
				touches[fn] = append(touches[fn], fa)
			}
		}
		// entry-block Lock + deferred Unlock
		lock, unlock := false, false
		if len(fn.Blocks) > 0 {
			for _, in := range fn.Blocks[0].Instrs {
				if c, ok := in.(*ssa.Call); ok && nameIn(calleeName(&c.Call), lockCallee) {
					lock = true
				}
				if d, ok := in.(*ssa.Defer); ok && nameIn(calleeName(&d.Call), unlockCallee) {
					unlock = true
				}
			}
		}
		holds[fn] = lock && unlock
	}
	var out []lockResult
	for fn, fas := range touches {
		ok := holds[fn]
		why := "takes the mutex in its entry block with a deferred unlock"
		if !ok {
			// all callers hold it (closures: their parent), directly or through their own callers
			callers := p.RealCallers(fn)
			var covered func(f *ssa.Function, d int, seen map[*ssa.Function]bool) bool
			covered = func(f *ssa.Function, d int, seen map[*ssa.Function]bool) bool {
				if holds[f] {
					return true
				}
				if d > 4 || seen[f] {
					return false
				}
				seen[f] = true
				cs := p.RealCallers(f)
				if len(cs) == 0 {
					return false
				}
				for _, c := range cs {
					if !covered(c, d+1, seen) {
						return false
					}
				}
				return true
			}
			all := len(callers) > 0
			var names []string
			for _, c := range callers {
				names = append(names, FnName(c))
				if !covered(c, 0, map[*ssa.Function]bool{fn: true}) {
					all = false
				}
			}
			ok = all
			why = "called only from lock-holding methods: " + strings.Join(names, ", ")
			if !ok {
				why = "accesses a mutex-protected map without holding the mutex (callers: " + strings.Join(names, ", ") + ")"
			}
		}
		st := derefStruct(fas[0].X.Type())
		out = append(out, lockResult{Fn: fn, Field: st.Field(fas[0].Field).Name(), Pos: fas[0].Pos(), OK: ok, Why: why})
	}
	return out
}

// strandContext: fields owned by the strand goroutine may be touched only (a) inside
// closures passed to strandCallee, (b) in functions all of whose callers are in
// context, (c) in allowedFns (constructor / after-shutdown code, listed with reason).
func (p *Program) strandContext(pkgShort, typeName string, fields []string, strandCallee string, allowedFns map[string]string) []lockResult {
	prot := map[string]bool{}
	for _, f := range fields {
		prot[f] = true
	}
	inCtx := map[*ssa.Function]bool{}
	for _, fn := range p.ModFns {
		for _, b := range fn.Blocks {
			for _, in := range b.Instrs {
				c, ok := in.(*ssa.Call)
				if !ok || calleeName(&c.Call) != strandCallee {
					continue
				}
				for _, a := range c.Call.Args {
					if mc, ok := a.(*ssa.MakeClosure); ok {
						inCtx[mc.Fn.(*ssa.Function)] = true
					}
				}
			}
		}
	}
	for name := range allowedFns {
		if f := p.Fn(name); f != nil && strings.Contains(allowedFns[name], "strandDone") {
			inCtx[f] = true // runs after the strand goroutine has finished
		}
	}
	touch := map[*ssa.Function]*ssa.FieldAddr{}
	for _, fn := range p.ModFns {
		if !strings.HasPrefix(FnName(fn), pkgShort+".") {
			continue
		}
		for _, b := range fn.Blocks {
			for _, in := range b.Instrs {
				fa, ok := in.(*ssa.FieldAddr)
				if !ok {
					continue
				}
				st := derefStruct(fa.X.Type())
				if st == nil || !prot[st.Field(fa.Field).Name()] || !strings.HasSuffix(typeShort(fa.X.Type()), pkgShort+"."+typeName) {
					continue
				}
				if _, fresh := fa.X.(*ssa.Alloc); fresh {
					continue
				}
				if touch[fn] == nil {
					touch[fn] = fa
				}
			}
		}
	}
	changed := true
	for changed {
		changed = false
		for _, fn := range p.ModFns {
			if inCtx[fn] || !strings.HasPrefix(FnName(fn), pkgShort+".") {
				continue
			}
			callers := p.Callers(fn)
			if len(callers) == 0 {
				continue
			}
			all := true
			for _, c := range callers {
				if !inCtx[c] {
					all = false
				}
			}
			if all {
				inCtx[fn] = true
				changed = true
			}
		}
	}
	var out []lockResult
	for fn, fa := range touch {
		st := derefStruct(fa.X.Type())
		name := st.Field(fa.Field).Name()
		if why, ok := allowedFns[FnName(fn)]; ok {
			out = append(out, lockResult{Fn: fn, Field: name, Pos: fa.Pos(), OK: true, Why: "reviewed: " + why})
			continue
		}
		if inCtx[fn] {
			out = append(out, lockResult{Fn: fn, Field: name, Pos: fa.Pos(), OK: true, Why: "runs on the strand (closure passed to " + strandCallee + " or called only from such closures / after the strand finished)"})
			continue
		}
		var names []string
		for _, c := range p.Callers(fn) {
			names = append(names, FnName(c))
		}
		out = append(out, lockResult{Fn: fn, Field: name, Pos: fa.Pos(), OK: false, Why: "touches strand-owned state outside the strand (callers: " + strings.Join(names, ", ") + ")"})
	}
	return out
}

// strandHandoff: a variable written inside a closure passed to strandCallee is read by
// the enclosing function after the call only where the call's error is known nil.
func (p *Program) strandHandoff(strandCallee string, pkgShort string) []lockResult {
	var out []lockResult
	for _, fn := range p.ModFns {
		if !strings.HasPrefix(FnName(fn), pkgShort+".") {
			continue
		}
		ff := p.Facts(fn)
		for _, b := range fn.Blocks {
			for _, in := range b.Instrs {
				c, ok := in.(*ssa.Call)
				if !ok || calleeName(&c.Call) != strandCallee {
					continue
				}
				var mc *ssa.MakeClosure
				for _, a := range c.Call.Args {
					if m, ok := a.(*ssa.MakeClosure); ok {
						mc = m
					}
				}
				if mc == nil {
					continue
				}
				cl := mc.Fn.(*ssa.Function)
				okAtom := "ok(" + ff.Term(c) + ")"
				for bi, bind := range mc.Bindings {
					al, ok := bind.(*ssa.Alloc)
					if !ok {
						continue
					}
					fv := cl.FreeVars[bi]
					written := false
					for _, rf := range *fv.Referrers() {
						if st, ok := rf.(*ssa.Store); ok && st.Addr == fv {
							written = true
						}
					}
					if !written {
						continue
					}
					after := ff.reachFrom(c.Block(), nil)
					for _, rf := range *al.Referrers() {
						ld, ok := rf.(*ssa.UnOp)
						if !ok || ld.Op != token.MUL || !after[ld.Block()] {
							continue
						}
						if ld.Block() == c.Block() {
							seenCall, isAfter := false, false
							for _, bi := range c.Block().Instrs {
								if bi == ssa.Instruction(c) {
									seenCall = true
								}
								if bi == ssa.Instruction(ld) {
									isAfter = seenCall
								}
							}
							if !isAfter {
								continue
							}
						}
						good := false
						for _, a := range ff.Must(ld.Block()) {
							if a.S == okAtom {
								good = true
							}
						}
						why := "read only after the strand call returned nil"
						if !good {
							why = "variable " + allocName(al) + " is written by the strand closure and read here even when " + strandCallee + " returned an error (on shutdown the closure may still be running: data race)"
						}
						out = append(out, lockResult{Fn: fn, Field: allocName(al), Pos: ld.Pos(), OK: good, Why: why})
					}
				}
			}
		}
	}
	return out
}

// sendCapacity: for every buffered channel made in fn with a constant capacity K on
// which goroutines started in fn perform blocking sends (not in a select), the number
// of such potential sends must not exceed K (fn receives from it at most once).
func (p *Program) sendCapacity(fn *ssa.Function) []pairResult {
	var out []pairResult
	for _, b := range fn.Blocks {
		for _, in := range b.Instrs {
			mk, ok := in.(*ssa.MakeChan)
			if !ok {
				continue
			}
			k, ok := constInt(mk.Size)
			if !ok || k.Sign() == 0 {
				continue
			}
			name := ""
			var chAlloc *ssa.Alloc
			for _, rf := range *mk.Referrers() {
				if st, ok := rf.(*ssa.Store); ok {
					if al, ok := st.Addr.(*ssa.Alloc); ok {
						name = allocName(al)
						if al.Comment != "" {
							name = al.Comment // source name, for the message only
						}
						chAlloc = al
					}
				}
			}
			if name == "" {
				continue
			}
			senders := 0
			unbounded := false
			for _, a := range fn.AnonFuncs {
				af := p.Facts(a)
				for _, ab := range a.Blocks {
					for _, ai := range ab.Instrs {
						s, ok := ai.(*ssa.Send)
						if !ok || resolveAlloc(s.Chan) != chAlloc {
							continue
						}
						senders++
						if lp := af.innermost[ab]; lp != nil {
							for _, lt := range lp.Latches {
								if af.reachWithin(lp, ab, lt, nil) {
									unbounded = true
								}
							}
						}
					}
				}
			}
			if senders == 0 {
				continue
			}
			okc := !unbounded && int64(senders) <= k.Int64()
			why := ""
			if !okc {
				why = "goroutines may block forever sending on " + name + ": " + fmtInt(senders) + " blocking send(s) but capacity " + k.String() + " and a single receive: the WaitGroup never completes and shutdown hangs"
			}
			out = append(out, pairResult{Desc: FnName(fn) + ": buffered channel " + name + " (cap " + k.String() + ") can absorb every blocking send of its " + fmtInt(senders) + " sender goroutine(s)", Pos: mk.Pos(), OK: okc, Why: why})
		}
	}
	return out
}

// nameIn: name is one of the "|"-separated alternatives.
func nameIn(name, alts string) bool {
	for _, a := range strings.Split(alts, "|") {
		if a == name {
			return true
		}
	}
	return false
}

// lockBalance: every Lock/RLock on a sync.Mutex/RWMutex in fn is released on every path to an
// exit of fn: by a deferred unlock on the same receiver, or by an explicit unlock that every path passes.
type lockLeak struct {
	Lock ssa.Instruction
	Recv string
	Exit token.Pos
	Kind string
}

func (p *Program) lockBalance(fn *ssa.Function) (int, []lockLeak) {
	ff := p.Facts(fn)
	isLock := func(n string) (string, bool) {
		switch n {
		case "sync.Mutex.Lock", "sync.RWMutex.Lock":
			return "Unlock", true
		case "sync.RWMutex.RLock":
			return "RUnlock", true
		}
		return "", false
	}
	unlockOf := func(in ssa.Instruction, recv, kind string) (isDefer bool, ok bool) {
		var c *ssa.CallCommon
		switch x := in.(type) {
		case *ssa.Call:
			c = &x.Call
		case *ssa.Defer:
			c = &x.Call
			isDefer = true
		default:
			return false, false
		}
		n := calleeName(c)
		if !strings.HasSuffix(n, "."+kind) || !(strings.HasPrefix(n, "sync.Mutex.") || strings.HasPrefix(n, "sync.RWMutex.")) || len(c.Args) == 0 {
			return false, false
		}
		return isDefer, ff.Term(c.Args[0]) == recv
	}
	n := 0
	var leaks []lockLeak
	for _, b := range fn.Blocks {
		for i, in := range b.Instrs {
			c, ok := in.(*ssa.Call)
			if !ok {
				continue
			}
			kind, ok := isLock(calleeName(&c.Call))
			if !ok || len(c.Call.Args) == 0 {
				continue
			}
			n++
			recv := ff.Term(c.Call.Args[0])
			// rest of the block
			released := false
			for _, in2 := range b.Instrs[i+1:] {
				if _, ok := unlockOf(in2, recv, kind); ok {
					released = true
					break
				}
			}
			if released {
				continue
			}
			has := map[*ssa.BasicBlock]bool{}
			for _, b2 := range fn.Blocks {
				for _, in2 := range b2.Instrs {
					if _, ok := unlockOf(in2, recv, kind); ok {
						has[b2] = true
					}
				}
			}
			seen := map[*ssa.BasicBlock]bool{}
			stack := append([]*ssa.BasicBlock{}, b.Succs...)
			if len(b.Succs) == 0 {
				leaks = append(leaks, lockLeak{c, recv, b.Instrs[len(b.Instrs)-1].Pos(), kind})
				continue
			}
			for len(stack) > 0 {
				x := stack[len(stack)-1]
				stack = stack[:len(stack)-1]
				if seen[x] || has[x] || x == fn.Recover {
					continue
				}
				seen[x] = true
				if len(x.Succs) == 0 {
					if _, isPanic := x.Instrs[len(x.Instrs)-1].(*ssa.Panic); isPanic {
						continue
					}
					if ff.noReturn(x) {
						continue
					}
					leaks = append(leaks, lockLeak{c, recv, x.Instrs[len(x.Instrs)-1].Pos(), kind})
					break
				}
				stack = append(stack, x.Succs...)
			}
		}
	}
	return n, leaks
}

// resolveAlloc: the local variable cell a value is loaded from, looking through closure captures
// (a free variable is resolved to the variable the enclosing function bound to it).
func resolveAlloc(v ssa.Value) *ssa.Alloc {
	for d := 0; d < 8; d++ {
		switch x := v.(type) {
		case *ssa.UnOp:
			v = x.X
		case *ssa.Alloc:
			return x
		case *ssa.FreeVar:
			fn := x.Parent()
			par := fn.Parent()
			if par == nil {
				return nil
			}
			idx := -1
			for i, f := range fn.FreeVars {
				if f == x {
					idx = i
				}
			}
			var next ssa.Value
			for _, b := range par.Blocks {
				for _, in := range b.Instrs {
					if m, ok := in.(*ssa.MakeClosure); ok && m.Fn == fn && idx >= 0 && idx < len(m.Bindings) {
						next = m.Bindings[idx]
					}
				}
			}
			if next == nil {
				return nil
			}
			v = next
		default:
			return nil
		}
	}
	return nil
}
