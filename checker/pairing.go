package main

import (
	"go/token"
	"strings"

	"golang.org/x/tools/go/ssa"
)

// Pairing rules (engine E9): WaitGroup Add/Done, channel range/close.

// mustExecOnAllExits: every path from the entry of g to a return/panic passes an
// instruction satisfying isTarget (a call or a defer of it).
func mustExecOnAllExits(g *ssa.Function, isTarget func(ssa.Instruction) bool) (bool, token.Pos) {
	target := map[*ssa.BasicBlock]bool{}
	for _, b := range g.Blocks {
		for _, in := range b.Instrs {
			if isTarget(in) {
				target[b] = true
			}
		}
	}
	if len(target) == 0 {
		return false, g.Pos()
	}
	seen := map[*ssa.BasicBlock]bool{}
	stack := []*ssa.BasicBlock{g.Blocks[0]}
	for len(stack) > 0 {
		n := stack[len(stack)-1]
		stack = stack[:len(stack)-1]
		if seen[n] || target[n] || n == g.Recover {
			continue
		}
		seen[n] = true
		if len(n.Succs) == 0 {
			last := n.Instrs[len(n.Instrs)-1]
			return false, last.Pos()
		}
		stack = append(stack, n.Succs...)
	}
	return true, token.NoPos
}

func callOrDeferOf(in ssa.Instruction, name string, argTerm func(ssa.Value) string, want string) bool {
	var cc *ssa.CallCommon
	switch x := in.(type) {
	case *ssa.Call:
		cc = &x.Call
	case *ssa.Defer:
		cc = &x.Call
	default:
		return false
	}
	if calleeName(cc) != name {
		return false
	}
	if want == "" {
		return true
	}
	return len(cc.Args) > 0 && argTerm(cc.Args[0]) == want
}

type pairResult struct {
	Desc string
	Pos  token.Pos
	OK   bool
	Why  string
}

// goroutinePairing checks, for fn and its nested closures: every goroutine started
// after wg.Add(k) calls wg.Done on all its exits; every channel that a goroutine of
// fn ranges over is closed on all exits of the goroutine that closes it.
func (p *Program) goroutinePairing(fn *ssa.Function) []pairResult {
	var out []pairResult
	all := []*ssa.Function{fn}
	var collect func(f *ssa.Function)
	collect = func(f *ssa.Function) {
		for _, a := range f.AnonFuncs {
			all = append(all, a)
			collect(a)
		}
	}
	collect(fn)
	ranged := map[string]token.Pos{} // channel name -> position of the range
	closers := map[string][]*ssa.Function{}
	for _, f := range all {
		ff := p.Facts(f)
		for _, b := range f.Blocks {
			for _, in := range b.Instrs {
				// range over channel: v, ok := <-ch in a loop header  (UnOp ARROW CommaOk)
				if u, ok := in.(*ssa.UnOp); ok && u.Op == token.ARROW && u.CommaOk && ff.innermost[b] != nil {
					ranged[chanName(ff.Term(u.X))] = u.Pos()
				}
				if cc := commonOf(in); cc != nil && calleeName(cc) == "close" && len(cc.Args) == 1 {
					n := chanName(ff.Term(cc.Args[0]))
					closers[n] = append(closers[n], f)
				}
				g, isGo := in.(*ssa.Go)
				if !isGo {
					continue
				}
				mc, ok := g.Call.Value.(*ssa.MakeClosure)
				if !ok {
					continue
				}
				gf := mc.Fn.(*ssa.Function)
				// nearest preceding wg.Add in this block or a dominator
				wg := ""
				for bb := b; bb != nil && wg == ""; bb = bb.Idom() {
					for i := len(bb.Instrs) - 1; i >= 0; i-- {
						if bb == b && bb.Instrs[i].Pos() > in.Pos() && in.Pos().IsValid() {
							continue
						}
						if c, ok := bb.Instrs[i].(*ssa.Call); ok && calleeName(&c.Call) == "sync.WaitGroup.Add" {
							wg = chanName(ff.Term(c.Call.Args[0]))
							break
						}
					}
				}
				if wg == "" {
					continue
				}
				gff := p.Facts(gf)
				ok2, pos := mustExecOnAllExits(gf, func(i ssa.Instruction) bool {
					return callOrDeferOf(i, "sync.WaitGroup.Done", func(v ssa.Value) string { return chanName(gff.Term(v)) }, wg)
				})
				why := "wg.Done is executed on every exit path"
				if !ok2 {
					why = "an exit of the goroutine at " + p.Pos(pos) + " is reachable without " + wg + ".Done(): the waiter blocks forever"
				}
				out = append(out, pairResult{Desc: FnName(gf) + ": goroutine counted by " + wg + ".Add calls Done on all paths", Pos: g.Pos(), OK: ok2, Why: why})
			}
		}
	}
	for ch, pos := range ranged {
		cl := closers[ch]
		if len(cl) == 0 {
			out = append(out, pairResult{Desc: FnName(fn) + ": channel " + ch + " is ranged over but never closed", Pos: pos, OK: false, Why: "the ranging goroutine never terminates"})
			continue
		}
		for _, cf := range cl {
			cff := p.Facts(cf)
			ok2, epos := mustExecOnAllExits(cf, func(i ssa.Instruction) bool {
				return callOrDeferOf(i, "close", func(v ssa.Value) string { return chanName(cff.Term(v)) }, ch)
			})
			why := "close is executed on every exit path of the closing goroutine"
			if !ok2 {
				why = "an exit of " + FnName(cf) + " at " + p.Pos(epos) + " is reachable without close(" + ch + "): goroutines ranging over it block forever"
			}
			out = append(out, pairResult{Desc: FnName(cf) + ": closes " + ch + " (ranged over by a worker) on all paths", Pos: pos, OK: ok2, Why: why})
		}
	}
	return out
}

func commonOf(in ssa.Instruction) *ssa.CallCommon {
	switch x := in.(type) {
	case *ssa.Call:
		return &x.Call
	case *ssa.Defer:
		return &x.Call
	case *ssa.Go:
		return &x.Call
	}
	return nil
}

// chanName normalises local / free variable spellings of the same variable.
func chanName(t string) string {
	for _, p := range []string{"^", "local:", "var:"} {
		t = strings.TrimPrefix(t, p)
	}
	return t
}

// lockDiscipline: every method of the named struct type that touches one of the
// protected fields either takes the struct's mutex in its entry block (Lock + a
// deferred Unlock) or is only ever called from methods that do.
type lockResult struct {
	Fn     *ssa.Function
	Field  string
	Pos    token.Pos
	OK     bool
	Why    string
}

func (p *Program) lockDiscipline(pkgShort, typeName string, fields []string, lockCallee, unlockCallee string) []lockResult {
	prot := map[string]bool{}
	for _, f := range fields {
		prot[f] = true
	}
	holds := map[*ssa.Function]bool{}
	touches := map[*ssa.Function][]*ssa.FieldAddr{}
	for _, fn := range p.ModFns {
		if !strings.HasPrefix(FnName(fn), pkgShort+".") {
			continue
		}
		for _, b := range fn.Blocks {
			for _, in := range b.Instrs {
				fa, ok := in.(*ssa.FieldAddr)
				if !ok {
					continue
				}
				st := derefStruct(fa.X.Type())
				if st == nil || !prot[st.Field(fa.Field).Name()] {
					continue
				}
				if !strings.HasSuffix(typeShort(fa.X.Type()), pkgShort+"."+typeName) {
					continue
				}
				if _, fresh := fa.X.(*ssa.Alloc); fresh {
					continue // constructor initialising a value nobody else can see yet
				}
				touches[fn] = append(touches[fn], fa)
			}
		}
		// entry-block Lock + deferred Unlock
		lock, unlock := false, false
		if len(fn.Blocks) > 0 {
			for _, in := range fn.Blocks[0].Instrs {
				if c, ok := in.(*ssa.Call); ok && calleeName(&c.Call) == lockCallee {
					lock = true
				}
				if d, ok := in.(*ssa.Defer); ok && calleeName(&d.Call) == unlockCallee {
					unlock = true
				}
			}
		}
		holds[fn] = lock && unlock
	}
	var out []lockResult
	for fn, fas := range touches {
		ok := holds[fn]
		why := "takes the mutex in its entry block with a deferred unlock"
		if !ok {
			// all callers hold it (closures: their parent)
			callers := p.Callers(fn)
			all := len(callers) > 0
			var names []string
			for _, c := range callers {
				names = append(names, FnName(c))
				if !holds[c] {
					all = false
				}
			}
			ok = all
			why = "called only from lock-holding methods: " + strings.Join(names, ", ")
			if !ok {
				why = "accesses a mutex-protected map without holding the mutex (callers: " + strings.Join(names, ", ") + ")"
			}
		}
		st := derefStruct(fas[0].X.Type())
		out = append(out, lockResult{Fn: fn, Field: st.Field(fas[0].Field).Name(), Pos: fas[0].Pos(), OK: ok, Why: why})
	}
	return out
}
