package main

import (
	"fmt"
	"go/token"
	"sort"
	"strings"

	"golang.org/x/tools/go/callgraph"
	"golang.org/x/tools/go/ssa"
)

// Ownership (engine E5).

type BucketWrite struct {
	Bucket string // "visor/blockdb.UnspentPoolBkt" or "?<term>" when not a single global
	Op     string
	Fn     *ssa.Function
	Site   ssa.CallInstruction
}

var bucketMutators = map[string]int{ // callee -> index of the bucket-name argument
	"visor/dbutil.PutBucketValue": 1,
	"visor/dbutil.Delete":         1,
	"visor/dbutil.Reset":          1,
	"visor/dbutil.NextSequence":   1,
	"visor/dbutil.CreateBuckets":  1,
}

// BucketWrites enumerates every bolt bucket mutation in the module.
func (p *Program) BucketWrites() []BucketWrite {
	var out []BucketWrite
	for _, fn := range p.ModFns {
		inDbutil := strings.HasPrefix(FnName(fn), "visor/dbutil.")
		ff := p.Facts(fn)
		for _, b := range fn.Blocks {
			for _, in := range b.Instrs {
				ci, ok := in.(ssa.CallInstruction)
				if !ok {
					continue
				}
				name := calleeName(ci.Common())
				if idx, ok := bucketMutators[name]; ok && !inDbutil {
					arg := ci.Common().Args[idx]
					for _, bk := range bucketNames(ff, arg) {
						out = append(out, BucketWrite{Bucket: bk, Op: name, Fn: fn, Site: ci})
					}
					continue
				}
				// direct bolt API outside dbutil
				if !inDbutil && (strings.HasPrefix(name, "bolt.Bucket.Put") || strings.HasPrefix(name, "bolt.Bucket.Delete") ||
					strings.HasPrefix(name, "bolt.Tx.CreateBucket") || strings.HasPrefix(name, "bolt.Tx.DeleteBucket") || strings.HasPrefix(name, "bolt.Bucket.CreateBucket") || strings.HasPrefix(name, "bolt.Bucket.DeleteBucket") || strings.HasPrefix(name, "bolt.Bucket.NextSequence") || strings.HasPrefix(name, "bolt.Bucket.SetSequence")) {
					bks := []string{"?direct-bolt:" + name}
					if args := ci.Common().Args; len(args) >= 2 {
						bks = bucketNames(ff, args[1])
					}
					for _, bk := range bks {
						out = append(out, BucketWrite{Bucket: bk, Op: name, Fn: fn, Site: ci})
					}
				}
			}
		}
	}
	sort.Slice(out, func(i, j int) bool {
		if out[i].Bucket != out[j].Bucket {
			return out[i].Bucket < out[j].Bucket
		}
		return out[i].Site.Pos() < out[j].Site.Pos()
	})
	return out
}

// bucketNames resolves a bucket-name argument to package-level bucket variables.
func bucketNames(ff *FuncFacts, v ssa.Value) []string {
	switch x := v.(type) {
	case *ssa.UnOp:
		if g, ok := x.X.(*ssa.Global); ok && x.Op == token.MUL {
			return []string{shortPkg(g.Pkg.Pkg.Path()) + "." + g.Name()}
		}
	case *ssa.Slice:
		// [][]byte{A, B, ...} literal: new array + stores
		if a, ok := x.X.(*ssa.Alloc); ok {
			var out []string
			for _, r := range *a.Referrers() {
				if ia, ok := r.(*ssa.IndexAddr); ok {
					for _, rr := range *ia.Referrers() {
						if st, ok := rr.(*ssa.Store); ok {
							out = append(out, bucketNames(ff, st.Val)...)
						}
					}
				}
			}
			if len(out) > 0 {
				return out
			}
		}
	case *ssa.Parameter:
		// helper taking the bucket as a parameter: resolve through its callers (1 level)
		fn := x.Parent()
		idx := -1
		for i, p := range fn.Params {
			if p == x {
				idx = i
			}
		}
		var out []string
		for _, e := range ff.P.CHA().Nodes[fn].In {
			if e.Site == nil {
				continue
			}
			args := e.Site.Common().Args
			if idx < len(args) {
				out = append(out, bucketNames(ff.P.Facts(e.Caller.Func), args[idx])...)
			}
		}
		if len(out) > 0 {
			return out
		}
	}
	return []string{"?" + ff.Term(v)}
}

// Callers returns the distinct functions with a CHA edge to fn.  Anonymous
// functions are additionally attributed to their lexical parent.
func (p *Program) Callers(fn *ssa.Function) []*ssa.Function {
	set := map[*ssa.Function]bool{}
	if fn.Parent() != nil {
		// a closure is attributed to the function that creates it (CHA would link
		// it to every dynamic call of a same-typed func value)
		set[fn.Parent()] = true
	} else if n := p.CHA().Nodes[fn]; n != nil {
		for _, e := range n.In {
			set[e.Caller.Func] = true
		}
	}
	var out []*ssa.Function
	for f := range set {
		if f.Synthetic != "" && !InModuleOrSynthetic(f) {
			continue
		}
		out = append(out, f)
	}
	sort.Slice(out, func(i, j int) bool { return fnLess(out[i], out[j]) })
	return out
}

func InModuleOrSynthetic(f *ssa.Function) bool { return true }

// CallerNames = FnName of Callers, restricted to module functions (bound-method
// wrappers and thunks are followed through to their callers).
func (p *Program) CallerNames(fn *ssa.Function) []string {
	set := map[string]bool{}
	var visit func(f *ssa.Function, depth int)
	seen := map[*ssa.Function]bool{}
	visit = func(f *ssa.Function, depth int) {
		for _, c := range p.Callers(f) {
			if seen[c] {
				continue
			}
			seen[c] = true
			if c.Synthetic != "" && depth < 4 { // wrapper / thunk / bound method
				visit(c, depth+1)
				continue
			}
			set[FnName(c)] = true
		}
	}
	visit(fn, 0)
	var out []string
	for s := range set {
		out = append(out, s)
	}
	sort.Strings(out)
	return out
}

// checkCallers: the set of callers of fnRef must be a subset of allowed (names).
func (r *Run) checkCallers(rule, fnRef string, allowed ...string) {
	fn := r.fn(rule, fnRef)
	if fn == nil {
		return
	}
	ok := map[string]bool{}
	for _, a := range allowed {
		ok[a] = true
	}
	callers := r.P.CallerNames(fn)
	r.Units["caller edges (CHA)"] += len(callers)
	for _, c := range callers {
		base := c
		if i := strings.Index(c, "$"); i >= 0 {
			base = c[:i]
		}
		good := ok[c] || ok[base]
		if !good {
			// a single-use unexported helper belongs to its only caller (extract-function refactor)
			if cf := r.P.Fn(base); cf != nil && r.P.singleUse(cf) {
				for _, cc := range r.P.CallerNames(cf) {
					b2 := cc
					if i := strings.Index(cc, "$"); i >= 0 {
						b2 = cc[:i]
					}
					if ok[cc] || ok[b2] {
						good = true
					}
				}
			}
		}
		r.Check(rule, fmt.Sprintf("%s called by %s", fnRef, c), r.P.Pos(fn.Pos()), good,
			fmt.Sprintf("%s may be called from %s, which is not in the allowed caller set %v", fnRef, c, allowed))
	}
}

// reachableFrom returns module functions reachable from roots in graph g.
func reachableFrom(g *callgraph.Graph, roots []*ssa.Function, stop func(*ssa.Function) bool) map[*ssa.Function]*ssa.Function {
	parent := map[*ssa.Function]*ssa.Function{}
	var stack []*ssa.Function
	for _, r := range roots {
		if _, ok := parent[r]; !ok {
			parent[r] = nil
			stack = append(stack, r)
		}
	}
	for len(stack) > 0 {
		f := stack[len(stack)-1]
		stack = stack[:len(stack)-1]
		n := g.Nodes[f]
		if n == nil {
			continue
		}
		for _, e := range n.Out {
			c := e.Callee.Func
			if _, ok := parent[c]; ok {
				continue
			}
			if stop != nil && stop(c) {
				continue
			}
			parent[c] = f
			stack = append(stack, c)
		}
		// closures created in f are assumed callable from f
		for _, a := range f.AnonFuncs {
			if _, ok := parent[a]; !ok {
				parent[a] = f
				stack = append(stack, a)
			}
		}
	}
	return parent
}

func pathTo(parent map[*ssa.Function]*ssa.Function, f *ssa.Function) string {
	var names []string
	for x := f; x != nil; x = parent[x] {
		names = append([]string{FnName(x)}, names...)
		if len(names) > 12 {
			break
		}
	}
	return strings.Join(names, " -> ")
}

// RealCallers: like Callers, but compiler-synthesised wrappers (promoted-method
// wrappers, bound-method closures, thunks) are replaced by their own callers; a
// wrapper that nobody calls contributes nothing.
func (p *Program) RealCallers(fn *ssa.Function) []*ssa.Function {
	set := map[*ssa.Function]bool{}
	seen := map[*ssa.Function]bool{}
	var visit func(f *ssa.Function, d int)
	visit = func(f *ssa.Function, d int) {
		for _, c := range p.Callers(f) {
			if seen[c] {
				continue
			}
			seen[c] = true
			if c.Synthetic != "" && d < 5 {
				visit(c, d+1)
				continue
			}
			set[c] = true
		}
	}
	visit(fn, 0)
	var out []*ssa.Function
	for f := range set {
		out = append(out, f)
	}
	sort.Slice(out, func(i, j int) bool { return fnLess(out[i], out[j]) })
	return out
}
