package main

import (
	"fmt"
	"go/constant"
	"go/token"
	"go/types"
	"math/big"
	"regexp"
	"strings"

	"golang.org/x/tools/go/ssa"
)

// Arithmetic and conversion safety (engine E7): interval arithmetic in ℤ over SSA
// values, refined by dominating comparisons (E3).  No widening: loop-carried
// values get their type range.

type Interval struct{ Lo, Hi *big.Int }

func (iv Interval) String() string { return "[" + iv.Lo.String() + "," + iv.Hi.String() + "]" }

func typeRange(t types.Type) (Interval, bool) {
	b, ok := t.Underlying().(*types.Basic)
	if !ok || b.Info()&types.IsInteger == 0 {
		return Interval{}, false
	}
	bits := 64
	switch b.Kind() {
	case types.Int8, types.Uint8:
		bits = 8
	case types.Int16, types.Uint16:
		bits = 16
	case types.Int32, types.Uint32:
		bits = 32
	}
	one := big.NewInt(1)
	if b.Info()&types.IsUnsigned != 0 {
		hi := new(big.Int).Lsh(one, uint(bits))
		return Interval{big.NewInt(0), hi.Sub(hi, one)}, true
	}
	hi := new(big.Int).Lsh(one, uint(bits-1))
	lo := new(big.Int).Neg(hi)
	return Interval{lo, new(big.Int).Sub(hi, one)}, true
}

func within(a, b Interval) bool { return a.Lo.Cmp(b.Lo) >= 0 && a.Hi.Cmp(b.Hi) <= 0 }

func constInt(v ssa.Value) (*big.Int, bool) {
	c, ok := v.(*ssa.Const)
	if !ok || c.Value == nil || c.Value.Kind() != constant.Int {
		return nil, false
	}
	bi, ok := new(big.Int).SetString(c.Value.ExactString(), 10)
	return bi, ok
}

// CondFact is a dominating branch condition with its polarity.
type CondFact struct {
	Cond ssa.Value
	Pol  bool
}

// DomConds returns the structural form of the dominance atoms of Must(T).
func (ff *FuncFacts) DomConds(T *ssa.BasicBlock) []CondFact {
	var out []CondFact
	for B := T.Idom(); B != nil; B = B.Idom() {
		iff := ifOf(B)
		if iff == nil || B.Succs[0] == B.Succs[1] {
			continue
		}
		r0 := ff.reachFrom(B.Succs[0], B)[T]
		r1 := ff.reachFrom(B.Succs[1], B)[T]
		if r0 && !r1 {
			out = append(out, CondFact{iff.Cond, true})
		} else if r1 && !r0 {
			out = append(out, CondFact{iff.Cond, false})
		}
	}
	return out
}

// rangeOf computes an interval for v valid at block `at`.
func (ff *FuncFacts) rangeOf(v ssa.Value, at *ssa.BasicBlock, depth int) Interval {
	tr, ok := typeRange(v.Type())
	if !ok {
		return Interval{big.NewInt(0), big.NewInt(0)}
	}
	res := ff.rawRange(v, at, depth, tr)
	// refinement by dominating comparisons on the same term
	if at != nil && depth < 6 {
		vt := ff.Term(v)
		for _, cf := range ff.DomConds(at) {
			b, ok := cf.Cond.(*ssa.BinOp)
			if !ok {
				continue
			}
			op := b.Op
			if !cf.Pol {
				op = negOp(op)
			}
			var other ssa.Value
			if ff.Term(b.X) == vt {
				other = b.Y
			} else if ff.Term(b.Y) == vt {
				other = b.X
				op = flipOp(op)
			} else {
				continue
			}
			if ff.Term(other) == vt {
				continue
			}
			o := ff.rangeOf(other, nil, depth+3)
			one := big.NewInt(1)
			switch op { // v op other
			case token.LSS:
				res.Hi = minBig(res.Hi, new(big.Int).Sub(o.Hi, one))
			case token.LEQ:
				res.Hi = minBig(res.Hi, o.Hi)
			case token.GTR:
				res.Lo = maxBig(res.Lo, new(big.Int).Add(o.Lo, one))
			case token.GEQ:
				res.Lo = maxBig(res.Lo, o.Lo)
			case token.EQL:
				res.Lo = maxBig(res.Lo, o.Lo)
				res.Hi = minBig(res.Hi, o.Hi)
			case token.NEQ:
				if o.Lo.Cmp(o.Hi) == 0 {
					if res.Lo.Cmp(o.Lo) == 0 {
						res.Lo = new(big.Int).Add(res.Lo, one)
					}
					if res.Hi.Cmp(o.Lo) == 0 {
						res.Hi = new(big.Int).Sub(res.Hi, one)
					}
				}
			}
		}
	}
	return res
}

func flipOp(op token.Token) token.Token {
	switch op {
	case token.LSS:
		return token.GTR
	case token.LEQ:
		return token.GEQ
	case token.GTR:
		return token.LSS
	case token.GEQ:
		return token.LEQ
	}
	return op
}

func minBig(a, b *big.Int) *big.Int {
	if a.Cmp(b) <= 0 {
		return a
	}
	return b
}
func maxBig(a, b *big.Int) *big.Int {
	if a.Cmp(b) >= 0 {
		return a
	}
	return b
}

var maxLen = new(big.Int).Sub(new(big.Int).Lsh(big.NewInt(1), 63), big.NewInt(1))

func (ff *FuncFacts) rawRange(v ssa.Value, at *ssa.BasicBlock, depth int, tr Interval) Interval {
	if depth > 10 {
		return tr
	}
	if c, ok := constInt(v); ok {
		return Interval{c, c}
	}
	switch x := v.(type) {
	case *ssa.Call:
		if f := x.Call.StaticCallee(); f != nil && f.Blocks != nil && InModule(f) && depth < 4 {
			// value-returning module callee: union of the ranges of its returns
			if iv, ok := ff.P.returnRange(f, depth); ok && within(iv, tr) {
				return iv
			}
		}
		if b, ok := x.Call.Value.(*ssa.Builtin); ok && (b.Name() == "len" || b.Name() == "cap") {
			// arrays / strings of known length
			if arr, ok := x.Call.Args[0].Type().Underlying().(*types.Array); ok {
				n := big.NewInt(arr.Len())
				return Interval{n, n}
			}
			if sl, ok := x.Call.Args[0].(*ssa.Slice); ok {
				if arr, ok := derefArray(sl.X.Type()); ok && sl.Low == nil && sl.High == nil {
					n := big.NewInt(arr.Len())
					return Interval{n, n}
				}
			}
			// a slice of elements of size s >= 2 has len <= MaxInt/s (its backing store fits the address space)
			if st, ok := x.Call.Args[0].Type().Underlying().(*types.Slice); ok {
				if sz := types.SizesFor("gc", "amd64").Sizeof(st.Elem()); sz >= 2 {
					return Interval{big.NewInt(0), new(big.Int).Div(maxLen, big.NewInt(sz))}
				}
			}
			return Interval{big.NewInt(0), maxLen}
		}
	case *ssa.Convert:
		in := ff.rangeOf(x.X, at, depth+1)
		if _, ok := typeRange(x.X.Type()); ok && within(in, tr) {
			return in
		}
		return tr
	case *ssa.ChangeType:
		return ff.rangeOf(x.X, at, depth+1)
	case *ssa.BinOp:
		if iv, ok := ff.idiomBound[x]; ok {
			return iv
		}
		a := ff.rangeOf(x.X, at, depth+1)
		b := ff.rangeOf(x.Y, at, depth+1)
		var r Interval
		switch x.Op {
		case token.ADD:
			r = Interval{new(big.Int).Add(a.Lo, b.Lo), new(big.Int).Add(a.Hi, b.Hi)}
		case token.SUB:
			r = Interval{new(big.Int).Sub(a.Lo, b.Hi), new(big.Int).Sub(a.Hi, b.Lo)}
		case token.MUL:
			if a.Lo.Sign() < 0 || b.Lo.Sign() < 0 {
				return tr
			}
			r = Interval{new(big.Int).Mul(a.Lo, b.Lo), new(big.Int).Mul(a.Hi, b.Hi)}
		case token.QUO:
			if b.Lo.Sign() <= 0 || a.Lo.Sign() < 0 {
				return tr
			}
			r = Interval{new(big.Int).Quo(a.Lo, b.Hi), new(big.Int).Quo(a.Hi, b.Lo)}
		case token.REM:
			if b.Lo.Sign() <= 0 || a.Lo.Sign() < 0 {
				return tr
			}
			r = Interval{big.NewInt(0), minBig(a.Hi, new(big.Int).Sub(b.Hi, big.NewInt(1)))}
		case token.AND:
			if a.Lo.Sign() < 0 || b.Lo.Sign() < 0 {
				return tr
			}
			r = Interval{big.NewInt(0), minBig(a.Hi, b.Hi)}
		case token.SHR:
			if a.Lo.Sign() < 0 || b.Lo.Sign() < 0 || b.Lo.Cmp(big.NewInt(64)) > 0 {
				return tr
			}
			r = Interval{big.NewInt(0), new(big.Int).Rsh(a.Hi, uint(b.Lo.Int64()))}
		default:
			return tr
		}
		if within(r, tr) {
			return r
		}
		return tr // may wrap: only the type range is known
	case *ssa.Phi:
		if _, ind := ff.inductionPhi[x]; ind {
			return tr
		}
		if lp := ff.headerLoop[x.Block()]; lp != nil {
			// geometric accumulator acc = init; acc = acc*c (c >= 1) proved wrap-free: init <= acc <= init*c^N
			for i, pred := range x.Block().Preds {
				if !lp.Blocks[pred] {
					continue
				}
				if mul, ok := x.Edges[i].(*ssa.BinOp); ok && mul.Op == token.MUL && mul.X == x {
					if why, ok := ff.geomLoopIdiom(mul, tr); ok {
						var lo, hi big.Int
						var init *big.Int
						for j, p2 := range x.Block().Preds {
							if !lp.Blocks[p2] {
								if v, ok := constInt(x.Edges[j]); ok {
									init = v
								}
							}
						}
						if m := geomBoundRe.FindStringSubmatch(why); m != nil && init != nil {
							lo.Set(init)
							hi.SetString(m[1], 10)
							return Interval{&lo, &hi}
						}
					}
				}
			}
			return tr // loop-carried: no widening
		}
		var r *Interval
		for _, e := range x.Edges {
			if e == x {
				continue
			}
			iv := ff.rangeOf(e, nil, depth+2)
			if r == nil {
				c := iv
				r = &c
			} else {
				r.Lo = minBig(r.Lo, iv.Lo)
				r.Hi = maxBig(r.Hi, iv.Hi)
			}
		}
		if r != nil && within(*r, tr) {
			return *r
		}
	case *ssa.Parameter:
		if iv, ok := ff.P.paramRange(x); ok && within(iv, tr) {
			return iv
		}
	case *ssa.Field:
		if st, ok := x.X.Type().Underlying().(*types.Struct); ok {
			if iv, ok := ff.P.fieldRange(st.Field(x.Field)); ok && within(iv, tr) {
				return iv
			}
		}
	case *ssa.UnOp:
		if x.Op == token.MUL {
			// element of []rune(string): a Unicode code point (language spec: string -> []rune conversion)
			if ia, ok := x.X.(*ssa.IndexAddr); ok {
				if cv, ok := ia.X.(*ssa.Convert); ok {
					if b, ok := cv.X.Type().Underlying().(*types.Basic); ok && b.Info()&types.IsString != 0 {
						if st, ok := cv.Type().Underlying().(*types.Slice); ok {
							if eb, ok := st.Elem().Underlying().(*types.Basic); ok && eb.Kind() == types.Int32 {
								return Interval{big.NewInt(0), big.NewInt(0x10FFFF)}
							}
						}
					}
				}
			}
			if fa, ok := x.X.(*ssa.FieldAddr); ok {
				if st := derefStruct(fa.X.Type()); st != nil {
					if iv, ok := ff.P.fieldRange(st.Field(fa.Field)); ok && within(iv, tr) {
						return iv
					}
				}
			}
			if a, ok := x.X.(*ssa.Alloc); ok {
				// single-store local
				var st *ssa.Store
				n := 0
				for _, rf := range *a.Referrers() {
					if s, ok := rf.(*ssa.Store); ok && s.Addr == a {
						st = s
						n++
					}
				}
				if n == 1 {
					return ff.rangeOf(st.Val, nil, depth+1)
				}
			}
		}
	}
	return tr
}

func derefArray(t types.Type) (*types.Array, bool) {
	if p, ok := t.Underlying().(*types.Pointer); ok {
		t = p.Elem()
	}
	a, ok := t.Underlying().(*types.Array)
	return a, ok
}

// ArithSite is one arithmetic / conversion obligation.
type ArithSite struct {
	Kind string // "add" "sub" "mul" "convert"
	Expr string
	In   ssa.Instruction
	OK   bool
	Why  string
}

// ArithSites enumerates and decides the obligations of a function.
func (ff *FuncFacts) ArithSites() []ArithSite {
	var out []ArithSite
	for _, b := range ff.Fn.Blocks {
		for _, in := range b.Instrs {
			switch x := in.(type) {
			case *ssa.BinOp:
				if x.Op != token.ADD && x.Op != token.SUB && x.Op != token.MUL {
					continue
				}
				tr, ok := typeRange(x.Type())
				if !ok {
					continue
				}
				if _, ind := ff.inductionAlias[x]; ind {
					continue
				}
				if ff.isInductionStep(x) {
					continue
				}
				s := ArithSite{Kind: map[token.Token]string{token.ADD: "add", token.SUB: "sub", token.MUL: "mul"}[x.Op], Expr: ff.Term(x), In: x}
				a := ff.rangeOf(x.X, b, 0)
				c := ff.rangeOf(x.Y, b, 0)
				var r Interval
				switch x.Op {
				case token.ADD:
					r = Interval{new(big.Int).Add(a.Lo, c.Lo), new(big.Int).Add(a.Hi, c.Hi)}
				case token.SUB:
					r = Interval{new(big.Int).Sub(a.Lo, c.Hi), new(big.Int).Sub(a.Hi, c.Lo)}
				case token.MUL:
					lo, hi := mulRange(a, c)
					r = Interval{lo, hi}
				}
				if within(r, tr) {
					s.OK, s.Why = true, fmt.Sprintf("interval: operands %s %s, result %s fits %s", a, c, r, tr)
				} else if x.Op == token.SUB && ff.knownLE(x.Y, x.X, b) {
					s.OK, s.Why = true, "guard: subtrahend <= minuend on every path"
				} else if why, bound, ok := ff.quotientBoundIdiom(x, b); ok {
					s.OK, s.Why = true, why
					ff.idiomBound[x] = bound
				} else if why, ok := ff.geomLoopIdiom(x, tr); ok {
					s.OK, s.Why = true, why
				} else if x.Op == token.ADD && ff.ceilDivIdiom(x, b) {
					s.OK, s.Why = true, "idiom: x/d + 1 under x%d != 0 (d >= 2, so x/d <= max/2)"
				} else {
					s.Why = fmt.Sprintf("cannot exclude wrap-around: operands %s %s give %s, type range %s", a, c, r, tr)
				}
				out = append(out, s)
			case *ssa.Convert:
				from, ok1 := typeRange(x.X.Type())
				to, ok2 := typeRange(x.Type())
				if !ok1 || !ok2 || within(from, to) {
					continue
				}
				s := ArithSite{Kind: "convert", Expr: ff.Term(x), In: x}
				a := ff.rangeOf(x.X, b, 0)
				if within(a, to) {
					s.OK, s.Why = true, fmt.Sprintf("interval: operand %s fits %s", a, to)
				} else {
					s.Why = fmt.Sprintf("narrowing/sign-changing conversion may lose value: operand %s, target %s", a, to)
				}
				out = append(out, s)
			}
		}
	}
	return out
}

func mulRange(a, b Interval) (*big.Int, *big.Int) {
	cands := []*big.Int{new(big.Int).Mul(a.Lo, b.Lo), new(big.Int).Mul(a.Lo, b.Hi), new(big.Int).Mul(a.Hi, b.Lo), new(big.Int).Mul(a.Hi, b.Hi)}
	lo, hi := cands[0], cands[0]
	for _, c := range cands[1:] {
		lo = minBig(lo, c)
		hi = maxBig(hi, c)
	}
	return lo, hi
}

func (ff *FuncFacts) isInductionStep(x *ssa.BinOp) bool {
	phi, ok := x.X.(*ssa.Phi)
	if !ok {
		return false
	}
	_, ind := ff.inductionPhi[phi]
	return ind && isConstInt(x.Y, 1)
}

// knownLE: a <= b holds at block (by a dominating comparison on the same terms).
func (ff *FuncFacts) knownLE(a, b ssa.Value, at *ssa.BasicBlock) bool {
	ta, tb := ff.Term(a), ff.Term(b)
	for _, at := range ff.Must(at) {
		if at.S == ta+" <= "+tb || at.S == ta+" < "+tb || at.S == ta+" == "+tb {
			return true
		}
	}
	return false
}

// ceilDivIdiom: x = (n / d) + 1 executed only under n % d != 0.
func (ff *FuncFacts) ceilDivIdiom(x *ssa.BinOp, at *ssa.BasicBlock) bool {
	if !isConstInt(x.Y, 1) {
		return false
	}
	q, ok := x.X.(*ssa.BinOp)
	if !ok || q.Op != token.QUO {
		return false
	}
	n, d := ff.Term(q.X), ff.Term(q.Y)
	want := "(" + n + " % " + d + ") != 0"
	for _, a := range ff.Must(at) {
		if a.S == want {
			return true
		}
	}
	return false
}

// arithObligations records the obligations of the named functions.
func arithObligations(r *Run, rule string, fnRefs ...string) {
	for _, ref := range fnRefs {
		fn := r.fn(rule, ref)
		if fn == nil {
			continue
		}
		// the function and the single-use helpers it calls (code moved out by an extract-function refactor)
		for _, f := range append([]*ssa.Function{fn}, r.P.singleUseCallees(fn, 2)...) {
			ff := r.P.Facts(f)
			sites := ff.ArithSites()
			r.Units["arithmetic obligations"] += len(sites)
			name := ref
			if f != fn {
				name = ref + " (helper " + FnName(f) + ")"
			}
			for _, s := range sites {
				r.Check(rule, name+": "+s.Kind+" "+trunc(s.Expr, 110), r.P.Pos(s.In.Pos()), s.OK, s.Why)
			}
		}
	}
}

// singleUseCallees: single-use helpers statically called from fn, transitively to the given depth.
func (p *Program) singleUseCallees(fn *ssa.Function, depth int) []*ssa.Function {
	var out []*ssa.Function
	seen := map[*ssa.Function]bool{fn: true}
	var walk func(f *ssa.Function, d int)
	walk = func(f *ssa.Function, d int) {
		for _, b := range f.Blocks {
			for _, in := range b.Instrs {
				if ci, ok := in.(ssa.CallInstruction); ok {
					if h := ci.Common().StaticCallee(); h != nil && !seen[h] && p.singleUse(h) {
						seen[h] = true
						out = append(out, h)
						if d < depth {
							walk(h, d+1)
						}
					}
				}
			}
		}
	}
	walk(fn, 1)
	return out
}

// txErrorDiscipline (C04-R4 / C08-R3): inside the visor packages no error returned
// by a function that takes a *dbutil.Tx (or by dbutil itself) is dropped.
func txErrorDiscipline(r *Run, rule string) {
	n, bad := 0, 0
	for _, fn := range r.P.ModFns {
		root := fn
		for root.Parent() != nil {
			root = root.Parent()
		}
		if root.Pkg == nil {
			continue
		}
		pk := shortPkg(root.Pkg.Pkg.Path())
		if pk != "visor" && !strings.HasPrefix(pk, "visor/") {
			continue
		}
		for _, b := range fn.Blocks {
			for _, in := range b.Instrs {
				call, ok := in.(*ssa.Call)
				if !ok {
					continue
				}
				sig := call.Call.Signature()
				res := sig.Results()
				if res.Len() == 0 || !isErrorType(res.At(res.Len()-1).Type()) {
					continue
				}
				if !takesTx(sig) {
					continue
				}
				n++
				used := false
				if res.Len() == 1 {
					used = hasRealReferrer(call)
				} else {
					for _, rf := range *call.Referrers() {
						if ex, ok := rf.(*ssa.Extract); ok && ex.Index == res.Len()-1 && hasRealReferrer(ex) {
							used = true
						}
					}
				}
				if !used {
					bad++
					r.Check(rule, FnName(fn)+": error of "+calleeName(&call.Call)+" dropped", r.P.Pos(call.Pos()), false,
						"the error result of a database accessor is neither checked nor returned; a failure here would let the enclosing bolt transaction commit a partial state")
				}
			}
		}
	}
	r.Units["tx-call sites with error result"] += n
	r.Check(rule, "no dropped db-accessor error in visor packages", "", bad == 0, fmt.Sprintf("%d call sites inspected", n))
	if n < 150 {
		r.Fail(rule, "instance-count tx-call sites", "", fmt.Sprintf("only %d call sites with a *dbutil.Tx argument found (expected >= 150)", n))
	}
}

func takesTx(sig *types.Signature) bool {
	check := func(t types.Type) bool {
		s := typeShort(t)
		return s == "*visor/dbutil.Tx"
	}
	for i := 0; i < sig.Params().Len(); i++ {
		if check(sig.Params().At(i).Type()) {
			return true
		}
	}
	return false
}

func hasRealReferrer(v ssa.Value) bool {
	if v.Referrers() == nil {
		return false
	}
	for _, rf := range *v.Referrers() {
		if _, ok := rf.(*ssa.DebugRef); ok {
			continue
		}
		return true
	}
	return false
}

var geomBoundRe = regexp.MustCompile(`bound (\d+) fits`)

// geomLoopIdiom: acc = acc * c inside "for k := 0; k < n; k++" where n <= N by its
// interval: acc <= init * c^N.  Discharged when that bound fits the type.
func (ff *FuncFacts) geomLoopIdiom(x *ssa.BinOp, tr Interval) (string, bool) {
	if x.Op != token.MUL {
		return "", false
	}
	phi, ok := x.X.(*ssa.Phi)
	c, okc := constInt(x.Y)
	if !ok || !okc || c.Sign() <= 0 {
		return "", false
	}
	lp := ff.headerLoop[phi.Block()]
	if lp == nil || !lp.Blocks[x.Block()] {
		return "", false
	}
	var init *big.Int
	for i, pred := range phi.Block().Preds {
		e := phi.Edges[i]
		if lp.Blocks[pred] {
			if e != x && e != phi {
				return "", false
			}
		} else {
			v, ok := constInt(e)
			if !ok || (init != nil && init.Cmp(v) != 0) {
				return "", false
			}
			init = v
		}
	}
	if init == nil || init.Sign() < 0 {
		return "", false
	}
	// trip count: header condition "k < n" with k the induction variable from 0
	iff := ifOf(lp.Header)
	if iff == nil {
		return "", false
	}
	cond, ok := iff.Cond.(*ssa.BinOp)
	if !ok || cond.Op != token.LSS || !lp.Blocks[lp.Header.Succs[0]] {
		return "", false
	}
	name := loopVarName(lp.Depth)
	if ff.Term(cond.X) != name || strings.Contains(ff.loopSpace(lp), "=") {
		return "", false
	}
	// the multiplication must happen at most once per iteration: its block is in this
	// loop and in no inner loop
	if ff.innermost[x.Block()] != lp {
		return "", false
	}
	n := ff.rangeOf(cond.Y, lp.Header, 0)
	if n.Hi.Cmp(big.NewInt(64)) > 0 {
		return "", false
	}
	bound := new(big.Int).Exp(c, n.Hi, nil)
	bound.Mul(bound, init)
	if bound.Cmp(tr.Hi) > 0 {
		return "", false
	}
	return fmt.Sprintf("idiom: geometric accumulator, at most %s iterations (trip count %s), bound %s fits", n.Hi, ff.Term(cond.Y), bound), true
}

// quotientBoundIdiom: x * (p - 1) under the guard p <= ceil(N / x), where
// ceil(N/x) is the φ of (N / x) and ((N / x) + 1).  Then x*(p-1) <= N - 1 < 2^64:
// (p-1) <= ceil(N/x) - 1 <= (N-1)/x for N >= 1; for N == 0 the guard forces p == 0
// and the site is unreachable when p >= 1 was established.
func (ff *FuncFacts) quotientBoundIdiom(x *ssa.BinOp, at *ssa.BasicBlock) (string, Interval, bool) {
	if x.Op != token.MUL {
		return "", Interval{}, false
	}
	try := func(a, b ssa.Value) (string, Interval, bool) {
		sub, ok := b.(*ssa.BinOp)
		if !ok || sub.Op != token.SUB || !isConstInt(sub.Y, 1) {
			return "", Interval{}, false
		}
		xa, p := ff.Term(a), ff.Term(sub.X)
		for _, atom := range ff.Must(at) {
			pre := p + " <= φ(("
			if !strings.HasPrefix(atom.S, pre) {
				continue
			}
			rest := atom.S[len(pre):]
			// rest = N / xa)|((N / xa) + 1))   or the alternatives in the other order
			i := strings.Index(rest, " / "+xa+")")
			if i < 0 {
				continue
			}
			N := rest[:i]
			N = strings.TrimPrefix(N, "(")
			want1 := p + " <= φ((" + N + " / " + xa + ")|((" + N + " / " + xa + ") + 1))"
			want2 := p + " <= φ(((" + N + " / " + xa + ") + 1)|(" + N + " / " + xa + "))"
			if atom.S != want1 && atom.S != want2 {
				continue
			}
			// p >= 1 must be known
			if iv := ff.rangeOf(sub.X, at, 0); iv.Lo.Sign() <= 0 {
				continue
			}
			// bound: the value N itself
			var nv ssa.Value
			for _, blk := range ff.Fn.Blocks {
				for _, in := range blk.Instrs {
					if v, ok := in.(ssa.Value); ok && ff.Term(v) == N {
						nv = v
					}
				}
			}
			for _, prm := range ff.Fn.Params {
				if ff.Term(prm) == N {
					nv = prm
				}
			}
			hi, _ := typeRange(x.Type())
			bound := hi
			if nv != nil {
				bound = ff.rangeOf(nv, at, 1)
			}
			return "idiom: x*(p-1) with p <= ceil(N/x) (" + atom.S + "), so the product is < N", Interval{big.NewInt(0), bound.Hi}, true
		}
		return "", Interval{}, false
	}
	if w, iv, ok := try(x.X, x.Y); ok {
		return w, iv, ok
	}
	return try(x.Y, x.X)
}

// fieldRange: the union of the ranges of every value stored into the field anywhere
// in the module, plus the zero value.  Only computed for registered fields.
func (p *Program) fieldRange(f *types.Var) (Interval, bool) {
	if p.fieldInv == nil {
		return Interval{}, false
	}
	key := f
	if iv, ok := p.fieldInvCache[key]; ok {
		return iv, true
	}
	if !p.fieldInv[f] {
		return Interval{}, false
	}
	if p.fieldInvBusy[f] {
		return Interval{}, false
	}
	p.fieldInvBusy[f] = true
	defer delete(p.fieldInvBusy, f)
	res := Interval{big.NewInt(0), big.NewInt(0)}
	tr, ok := typeRange(f.Type())
	if !ok {
		return Interval{}, false
	}
	for _, fn := range p.ModFns {
		var ff *FuncFacts
		for _, b := range fn.Blocks {
			for _, in := range b.Instrs {
				st, ok := in.(*ssa.Store)
				if !ok {
					continue
				}
				fa, ok := st.Addr.(*ssa.FieldAddr)
				if !ok {
					continue
				}
				sty := derefStruct(fa.X.Type())
				if sty == nil || sty.Field(fa.Field) != f {
					continue
				}
				if ff == nil {
					ff = p.Facts(fn)
				}
				iv := ff.rangeOf(st.Val, b, 1)
				res.Lo = minBig(res.Lo, iv.Lo)
				res.Hi = maxBig(res.Hi, iv.Hi)
			}
		}
	}
	if !within(res, tr) {
		res = tr
	}
	p.fieldInvCache[key] = res
	return res, true
}

// RegisterFieldInvariant enables fieldRange for "pkg.Type.Field".
func (p *Program) RegisterFieldInvariant(ref string) bool {
	f := p.Field(ref)
	if f == nil {
		return false
	}
	if p.fieldInv == nil {
		p.fieldInv = map[*types.Var]bool{}
		p.fieldInvCache = map[*types.Var]Interval{}
		p.fieldInvBusy = map[*types.Var]bool{}
	}
	p.fieldInv[f] = true
	return true
}

// RegisterParamFromCallers: the range of parameter k of fnRef is the union of the
// argument ranges at all its (CHA) call sites in the module.
func (p *Program) RegisterParamFromCallers(fnRef string) bool {
	fn := p.Fn(fnRef)
	if fn == nil {
		return false
	}
	if p.paramFrom == nil {
		p.paramFrom = map[*ssa.Function]bool{}
		p.paramCache = map[*ssa.Parameter]Interval{}
	}
	p.paramFrom[fn] = true
	return true
}

func (p *Program) paramRange(prm *ssa.Parameter) (Interval, bool) {
	fn := prm.Parent()
	if p.paramFrom == nil || !p.paramFrom[fn] {
		return Interval{}, false
	}
	if iv, ok := p.paramCache[prm]; ok {
		return iv, true
	}
	tr, ok := typeRange(prm.Type())
	if !ok {
		return Interval{}, false
	}
	idx := -1
	for i, q := range fn.Params {
		if q == prm {
			idx = i
		}
	}
	node := p.CHA().Nodes[fn]
	if node == nil || len(node.In) == 0 || idx < 0 {
		return Interval{}, false
	}
	p.paramCache[prm] = tr // recursion guard
	var res *Interval
	for _, e := range node.In {
		if e.Site == nil {
			return tr, true
		}
		args := e.Site.Common().Args
		if e.Site.Common().IsInvoke() {
			return tr, true
		}
		if idx >= len(args) {
			return tr, true
		}
		cf := p.Facts(e.Caller.Func)
		var iv Interval
		if wp, ok := args[idx].(*ssa.Parameter); ok && e.Caller.Func.Synthetic != "" {
			// pointer-receiver / bound-method wrapper: look through to its callers
			p.paramFrom[e.Caller.Func] = true
			wiv, ok := p.paramRange(wp)
			if !ok {
				continue // the wrapper itself is never called
			}
			iv = wiv
		} else {
			iv = cf.rangeOf(args[idx], e.Site.Block(), 1)
		}
		if res == nil {
			c := iv
			res = &c
		} else {
			res.Lo = minBig(res.Lo, iv.Lo)
			res.Hi = maxBig(res.Hi, iv.Hi)
		}
	}
	out := tr
	if res != nil && within(*res, tr) {
		out = *res
	}
	p.paramCache[prm] = out
	return out, true
}

// returnRange: union of the ranges of the (single) integer result over all returns.
func (p *Program) returnRange(f *ssa.Function, depth int) (Interval, bool) {
	if f.Signature.Results().Len() != 1 {
		return Interval{}, false
	}
	if _, ok := typeRange(f.Signature.Results().At(0).Type()); !ok {
		return Interval{}, false
	}
	if p.retBusy == nil {
		p.retBusy = map[*ssa.Function]bool{}
	}
	if p.retBusy[f] {
		return Interval{}, false
	}
	p.retBusy[f] = true
	defer delete(p.retBusy, f)
	ff := p.Facts(f)
	var res *Interval
	for _, b := range f.Blocks {
		if ret, ok := b.Instrs[len(b.Instrs)-1].(*ssa.Return); ok && len(ret.Results) == 1 {
			iv := ff.rangeOf(ret.Results[0], b, depth+2)
			if res == nil {
				c := iv
				res = &c
			} else {
				res.Lo = minBig(res.Lo, iv.Lo)
				res.Hi = maxBig(res.Hi, iv.Hi)
			}
		}
	}
	if res == nil {
		return Interval{}, false
	}
	return *res, true
}
