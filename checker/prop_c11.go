package main

func init() { props["C11"] = checkC11 }

func checkC11(r *Run) {
	r.Explain = "C11: (R1) the soft-rule verifier succeeds only with size<=max, fee computable, fee verified against the configured burn factor, no locked input, and the precision check on every output — and enforces nothing else; the fee verifier requires fee!=0, checked hours+fee, fee>=RequiredFee(total,burn); RequiredFee is floor(h/b) plus 1 exactly when h%b!=0; TransactionFee is in-out under in>=out; the precision check is amount % 10^(6-precision) == 0; (R2) soft failures are wrapped as soft errors only, hard failures as hard only; (R3) arithmetic of the fee helpers cannot wrap."
	r.NotDec = "numerical agreement with an independent fee model for concrete values"
	ruleMathutilIdioms(r, "C11-R1")
	soft := []Req{
		req("encoded size computable", "ok(coin.Transaction.Size($0))"),
		req("size within the configured limit", "coin.Transaction.Size($0)#0 <= $4.MaxTransactionSize"),
		req("fee = input hours at head time - output hours", "ok(util/fee.TransactionFee($0, $1, $2))"),
		req("fee verified against the configured burn factor", "ok(util/fee.VerifyTransactionFee($0, util/fee.TransactionFee($0, $1, $2)#0, $4.BurnFactor))"),
		req("spends nothing from a locked distribution address", "!transaction.TransactionIsLocked($3, $2)"),
		req("every output respects the configured decimal precision", "forall(i < len($0.Out)): ok(params.DropletPrecisionCheck($4.MaxDropletPrecision, $0.Out[i].Coins))"),
	}
	r.RequireOnSuccess("C11-R1", "transaction.verifyTxnSoftConstraints", soft...)
	r.ExhaustiveRejects("C11-R1", "transaction.verifyTxnSoftConstraints", append(soft, req("precision (per output)", "ok(params.DropletPrecisionCheck($4.MaxDropletPrecision, $0.Out[i].Coins))"))...)
	r.Min("C11-R1", 12)
	feeReqs := []Req{
		req("non-zero fee", "$1 != 0"),
		req("hours+fee does not overflow", "ok(util/mathutil.AddUint64($0, $1))"),
		req("fee >= RequiredFee(hours+fee, burnFactor)", "util/fee.RequiredFee(util/mathutil.AddUint64($0, $1)#0, $2) <= $1"),
	}
	r.RequireOnSuccess("C11-R1", "util/fee.VerifyTransactionFeeForHours", feeReqs...)
	r.ExhaustiveRejects("C11-R1", "util/fee.VerifyTransactionFeeForHours", feeReqs...)
	r.RequireOnSuccess("C11-R1", "util/fee.VerifyTransactionFee",
		req("output hours computable", "ok(coin.Transaction.OutputHours($0))"),
		req("delegates with the output hours", "ok(util/fee.VerifyTransactionFeeForHours(coin.Transaction.OutputHours($0)#0, $1, $2))"))
	r.ReturnShape("C11-R1", "util/fee.RequiredFee", 0,
		ShapeCase{"($0 % uint64($1)) == 0", "($0 / uint64($1))"},
		ShapeCase{"($0 % uint64($1)) != 0", "(($0 / uint64($1)) + 1)"})
	r.ReturnShape("C11-R1", "util/fee.RemainingHours", 0, ShapeCase{"", "($0 - util/fee.RequiredFee($0, $1))"})
	r.RequireOnSuccess("C11-R1", "util/fee.TransactionFee",
		req("input hours at head time", "ok(coin.UxArray.CoinHours($2, $1))"),
		req("output hours", "ok(coin.Transaction.OutputHours($0))"),
		req("in >= out", "coin.Transaction.OutputHours($0)#0 <= coin.UxArray.CoinHours($2, $1)#0"))
	r.ReturnShape("C11-R1", "util/fee.TransactionFee", 0,
		ShapeCase{"coin.Transaction.OutputHours($0)#0 <= coin.UxArray.CoinHours($2, $1)#0", "(coin.UxArray.CoinHours($2, $1)#0 - coin.Transaction.OutputHours($0)#0)"},
		ShapeCase{"", "0"})
	r.RequireOnSuccess("C11-R1", "params.DropletPrecisionCheck", req("amount divisible by 10^(6-precision)", "($1 % params.DropletPrecisionToDivisor($0)) == 0"))
	r.ExhaustiveRejects("C11-R1", "params.DropletPrecisionCheck", req("divisibility", "($1 % params.DropletPrecisionToDivisor($0)) == 0"))
	ruleTransactionIsLocked(r, "C11-R1")
	ruleUserConstraints(r, "C11-R1")
	ruleKnownTxnVerdictRefreshed(r, "C11-R2")
	// R2 error classes
	ruleVerifyParamsSites(r, "C11-R5")
	ruleHardBeforeSoft(r, "C11-R2")
	r.RejectsAre("C11-R2", "transaction.VerifySingleTxnSoftConstraints", 1, "transaction.NewErrTxnViolatesSoftConstraint(*)")
	r.RejectsAre("C11-R2", "transaction.VerifySingleTxnHardConstraints", 3, "transaction.NewErrTxnViolatesHardConstraint(*)")
	r.RejectsAre("C11-R2", "transaction.VerifyBlockTxnConstraints", 1, "transaction.NewErrTxnViolatesHardConstraint(*)")
	r.RequireOnSuccess("C11-R2", "transaction.VerifySingleTxnSoftConstraints", req("soft rules", "ok(transaction.verifyTxnSoftConstraints($0, $1, $2, $3, $4))"))
	hv := "visor.Blockchain.Head($0, $1)#0"
	ga := "iface:visor/blockdb.UnspentPooler.GetArray(visor.Blockchain.Unspent($0), $1, $2.In)#0"
	r.RequireOnSuccess("C11-R2", "visor.Blockchain.VerifySingleTxnSoftHardConstraints",
		req("hard rules first, against the current head and pool-looked-up inputs", "ok(visor.Blockchain.verifySingleTxnHardConstraints($0, $1, $2, "+hv+", "+ga+", $5))"),
		req("soft rules at the head time with the same inputs and the caller's parameters", "ok(transaction.VerifySingleTxnSoftConstraints($2, "+hv+".Block.Head.Time, "+ga+", $3, $4))"))
	// R3 arithmetic
	arithObligations(r, "C11-R3", "util/fee.RequiredFee", "util/fee.VerifyTransactionFeeForHours", "util/fee.TransactionFee", "params.DropletPrecisionToDivisor")
	// RemainingHours: hours - RequiredFee(hours, b) is safe because RequiredFee has the ceil-div shape (checked above): ceil(h/b) <= h for b >= 1
	r.Pass("C11-R3", "util/fee.RemainingHours: hours - RequiredFee(hours,b) cannot underflow", "", "lemma: ceil(h/b) <= h for b >= 1; the ceil-div shape of RequiredFee is obligation C11-R1 above, b >= 1 by params.VerifyTxn.Validate (C25-R1)")
}
