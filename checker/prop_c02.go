package main

import "strings"

func init() {
	props["C02"] = checkC02
	props["C03"] = checkC03
	props["C04"] = checkC04
	props["C06"] = checkC06
}

func checkC02(r *Run) {
	r.Explain = "C02: (R1) Unspents.GetArray succeeds only if every requested hash was found in the pool; (R2) processTransactions rejects (follower) or skips the later one (publisher) when two transactions of a block share an input or would create the same output; (R3) ProcessBlock inserts an output only after checking it is not in the pool; (R4) output ids derive from the creating transaction's hash; (R5) the unspent bucket is written only by block execution, deleting exactly the looked-up inputs and inserting exactly the created outputs."
	r.NotDec = "set equality (created minus spent) for a concrete history; hash collision freedom"
	ruleChainConfigPassthrough(r, "C02-R2")
	r.RequireOnSuccess("C02-R1", "visor/blockdb.Unspents.GetArray",
		req("every requested hash read without error", "forall(i < len($2)): ok(visor/blockdb.pool.get($0.pool, $1, $2[i]))"),
		req("every requested hash exists (non-nil)", "forall(i < len($2)): visor/blockdb.pool.get($0.pool, $1, $2[i])#0 != nil"))
	r.RequireOnSuccess("C02-R1", "visor/blockdb.pool.get",
		req("reads the unspent pool bucket by the hash", "ok(visor/dbutil.GetBucketValueNoCopy($1, visor/blockdb.UnspentPoolBkt, $2[:]))"))

	ruleProcessTxnsConflicts(r, "C02-R2")
	// one transaction may not name the same output twice (nor create the same output twice)
	r.RequireOnSuccess("C02-R6", "coin.Transaction.verify", txnVerifyReqs()...)
	ruleBlockVerificationChain(r, "C02-R2b")
	ruleUnspentPoolOwnership(r, "C02-R5")
	ruleProcessBlockProvenance(r, "C02-R5b")
}

const foldHoursIn = "fold[acc=0; util/mathutil.AddUint64(acc, φ(0|coin.UxOut.CoinHours($1[i], $0)#0))#0]"

func checkC03(r *Run) {
	r.Explain = "C03: (R1) VerifyTransactionHoursSpending succeeds only if output hours <= input hours accrued at the given time, the input sum built with the checked fold, and the only tolerated CoinHours error is the documented addition-overflow one (mapped to 0); (R2) the hard-constraint verifier calls it with the current head's time; (R3) admission to the unconfirmed pool requires OutputHours() and every input's CoinHours() to be computable; (R4) arithmetic of UxOut.CoinHours is overflow-checked (shared with C31)."
	r.NotDec = "monotonicity of accrual as a numerical fact; the documented legacy exception (unchecked output-hours sum in block verification)"
	ruleHoursSpending(r, "C03-R1")
	r.RequireOnSuccess("C03-R2", "transaction.verifyTxnHardConstraints",
		req("hours spending checked at the head time", "ok(coin.VerifyTransactionHoursSpending($1.Time, $2, coin.CreateUnspents($1, $0)))"))
	r.RequireOnSuccess("C03-R2", "visor.Blockchain.VerifyBlockTxnConstraints",
		req("the head passed down is the current head", "ok(visor.Blockchain.verifyBlockTxnHardConstraints($0, $1, $2, visor.Blockchain.Head($0, $1)#0, *))"))
	r.RequireOnSuccess("C03-R3", "transaction.VerifySingleTxnHardConstraints",
		req("output hours do not overflow", "ok(coin.Transaction.OutputHours($0))"),
		req("every input's accrued hours are computable", "forall(i < len($2)): ok(coin.UxOut.CoinHours($2[i], $1.Time))"),
		req("hard constraints", "ok(transaction.verifyTxnHardConstraints($0, $1, $2, $3))"))
	r.RequireOnSuccess("C03-R3", "coin.Transaction.OutputHours",
		req("checked fold over all outputs", "forall(i < len($0.Out)): ok(util/mathutil.AddUint64(fold[acc=0; util/mathutil.AddUint64(acc, $0.Out[i].Hours)#0], $0.Out[i].Hours))"))
	ruleCoinHoursArith(r, "C03-R4")
	// every transaction of every accepted block: the chain from block execution down to the hours check
	ruleBlockVerificationChain(r, "C03-R2")
	// accrual and the input sum lean on the checked helpers reporting every wrap
	ruleMathutilIdioms(r, "C03-R4")
}

func checkC04(r *Run) {
	r.Explain = "C04: (R1) every path to chainStore.AddBlock passes the publisher-signature check, except through the exported Unsafe variant whose in-module callers are enumerated; (R2) the header that was signature-checked is the header stored: no store to a BlockHeader field between the check and AddBlock; (R3) verifyBlockHeader succeeds only with seq==head+1, time>head time, prevhash==head hash, bodyhash==hash(body); verifyUxHash; second genesis refused; these are the only rejections; (R4) no error of a db accessor is dropped inside a tx function (a swallowed error would commit a partial state)."
	r.NotDec = "bolt's rollback itself (trusted); that HashHeader/Body.Hash compute the right bytes (C21)"
	ruleSignedHashAcceptors(r, "C04-R7")
	ruleBlockSigChain(r, "C04-R1")
	ruleNoStateBesideTx(r, "C04-R6")
	// R1
	r.RequireOnSuccess("C04-R1", "visor.Visor.executeSignedBlock",
		req("publisher signature verified with the configured key before execution", "ok(coin.SignedBlock.VerifySignature($2, $0.Config.BlockchainPubkey))"),
		req("then executed", "ok(visor.Visor.executeSignedBlockUnsafe($0, $1, $2))"))
	r.RequireOnSuccess("C04-R1", "coin.SignedBlock.VerifySignature",
		req("signature over the header hash", "ok(cipher.VerifyPubKeySignedHash($1, $0.Sig, coin.Block.HashHeader($0.Block)))"))
	r.checkCallers("C04-R1", "visor.Visor.executeSignedBlockUnsafe", "visor.Visor.executeSignedBlock", "visor.Visor.ExecuteSignedBlockUnsafe", "visor.Visor.CreateAndExecuteBlock", "visor.Visor.createAndExecuteBlock")
	r.checkCallers("C04-R1", "visor.Visor.ExecuteSignedBlockUnsafe")
	r.checkCallers("C04-R1", "visor.Blockchain.ExecuteBlock", "visor.Visor.executeSignedBlockUnsafe", "visor.addGenesisBlock", "visor.addGenesisBlockToVisor")
	r.checkCallers("C04-R1", "visor/blockdb.Blockchain.AddBlock", "visor.Blockchain.ExecuteBlock")
	// R2: no header mutation on the execution path
	for _, f := range []string{"visor.Visor.executeSignedBlock", "visor.Visor.executeSignedBlockUnsafe", "visor.Blockchain.ExecuteBlock", "visor.Blockchain.processBlock", "visor/blockdb.Blockchain.AddBlock"} {
		fn := r.fn("C04-R2", f)
		if fn == nil {
			continue
		}
		ff := r.P.Facts(fn)
		bad := false
		for _, s := range ff.StoreFacts() {
			if glob("*.Head.* := *", s.S) && !glob("local:*", s.S) || glob("*.Sig := *", s.S) || glob("*.Sig[*] := *", s.S) {
				bad = true
				r.Check("C04-R2", f+": writes the block header/signature after it was verified: "+trunc(s.S, 80), r.P.Pos(s.In.Pos()), false,
					"the stored header is not the header whose hash was signature-checked: "+s.S)
			}
		}
		if !bad {
			r.Pass("C04-R2", f+": no store to a header field or signature of the block being executed", r.P.Pos(fn.Pos()), "")
		}
	}
	// R3
	head := "visor.Blockchain.Head($0, $1)#0.Block"
	hdr := []Req{
		req("head read", "ok(visor.Blockchain.Head($0, $1))"),
		req("sequence is head+1", "$2.Head.BkSeq == ("+head+".Head.BkSeq + 1)"),
		req("time strictly later than head", head+".Head.Time < $2.Head.Time"),
		req("parent hash is the head's header hash", "$2.Head.PrevHash == coin.Block.HashHeader("+head+")"),
		req("body hash matches the transactions", "coin.BlockBody.Hash($2.Body) == $2.Head.BodyHash"),
	}
	r.RequireOnSuccess("C04-R3", "visor.Blockchain.verifyBlockHeader", hdr...)
	r.ExhaustiveRejects("C04-R3", "visor.Blockchain.verifyBlockHeader", hdr...)
	checkPure(r, "C04-R3", "visor.Blockchain.verifyBlockHeader")
	r.RequireOnSuccess("C04-R3", "visor.Blockchain.verifyUxHash",
		req("unspent-set checksum equals the node's", "bytes.Equal($2.Head.UxHash[:], iface:visor/blockdb.UnspentPooler.GetUxHash(visor.Blockchain.Unspent($0), $1)#0[:])"))
	nz := "when: 0 < visor.Blockchain.Len($0, $1)#0 => "
	r.RequireOnSuccess("C04-R3", "visor.Blockchain.processBlock",
		req("second genesis refused", nz+"!visor.Blockchain.isGenesisBlock($0, $1, $2.Block)#0"),
		req("header verified", nz+"ok(visor.Blockchain.verifyBlockHeader($0, $1, $2.Block))"),
		req("transactions verified", nz+"ok(visor.Blockchain.processTransactions($0, $1, $2.Block.Body.Transactions))"),
		req("ux hash verified", nz+"ok(visor.Blockchain.verifyUxHash($0, $1, $2.Block))"))
	r.RequireAtCall("C04-R3", "visor.Blockchain.ExecuteBlock", "iface:visor.chainStore.AddBlock", 1,
		req("stored only after processBlock accepted it", "ok(visor.Blockchain.processBlock($0, $1, *))"))
	// the stored block is processBlock's result (same header)
	if fn := r.P.Fn("visor.Blockchain.ExecuteBlock"); fn != nil {
		for _, cs := range r.CallSites(fn, "iface:visor.chainStore.AddBlock") {
			t := r.argTerm(cs, 1)
			r.Check("C04-R3", "ExecuteBlock stores the block returned by processBlock", r.P.Pos(cs.Pos()), glob("visor.Blockchain.processBlock($0, $1, *)#0", t), "AddBlock argument is "+t)
		}
	}
	// blockdb.AddBlock internal sequencing
	r.RequireOnSuccess("C04-R3", "visor/blockdb.Blockchain.AddBlock",
		req("block tree insert", "ok(iface:visor/blockdb.BlockTree.AddBlock($0.tree, $1, $2.Block))"),
		req("signature stored under the header hash", "ok(iface:visor/blockdb.BlockSigs.Add($0.sigs, $1, coin.Block.HashHeader($2.Block), $2.Sig))"),
		req("unspent pool updated", "ok(iface:visor/blockdb.UnspentPooler.ProcessBlock($0.unspent, $1, $2))"),
		req("head pointer moved to the block", "ok(iface:visor/blockdb.ChainMeta.SetHeadSeq($0.meta, $1, $2.Block.Head.BkSeq))"))
	ruleTxErrorDiscipline(r, "C04-R4")
}

func checkC06(r *Run) {
	r.Explain = "C06: (R1) the unconfirmed bucket is written only by unconfirmedTxns.put/delete, whose callers are enumerated; (R2) user submissions pass user + soft + hard constraints before injection; (R3) InjectTransaction inserts only when verification returned nil or a soft error, and a known hash is updated not duplicated; (R4) after a block is executed its transactions are removed from the pool and history is updated before success; (R5) RemoveInvalid removes exactly hard-violating txns; Refresh writes every re-checked txn back with IsValid=1 iff the verifier returned nil."
	r.NotDec = "flag/pool contents for a concrete interleaving"
	ruleNoCrossedConfig(r, "C06-R0")
	ruleHardBeforeSoft(r, "C06-R1")
	ruleTransactionIsLocked(r, "C06-R1")
	ruleUserConstraints(r, "C06-R1")
	ruleKnownTxnVerdictRefreshed(r, "C06-R1")
	ruleVerifyParamsSites(r, "C06-R1")
	// R1
	n := 0
	for _, w := range r.P.BucketWrites() {
		if w.Bucket != "visor.UnconfirmedTxnsBkt" && w.Bucket != "visor.UnconfirmedUnspentsBkt" {
			continue
		}
		n++
		name := FnName(w.Fn)
		ok := name == "visor.unconfirmedTxns.put" || name == "visor.unconfirmedTxns.delete" || name == "visor.txnUnspents.put" || name == "visor.txnUnspents.delete" || name == "visor.CreateBuckets$1"
		r.Check("C06-R1", w.Bucket+" written by "+name, r.P.Pos(w.Site.Pos()), ok, "unexpected writer of the unconfirmed pool bucket")
	}
	r.Min("C06-R1", 6)
	r.checkCallers("C06-R1", "visor.unconfirmedTxns.put", "visor.UnconfirmedTransactionPool.InjectTransaction", "visor.UnconfirmedTransactionPool.Refresh", "visor.UnconfirmedTransactionPool.SetTransactionsAnnounced", "visor.unconfirmedTxns.update")
	r.checkCallers("C06-R1", "visor.unconfirmedTxns.update", "visor.UnconfirmedTransactionPool.InjectTransaction", "visor.UnconfirmedTransactionPool.SetTransactionsAnnounced")
	r.checkCallers("C06-R1", "visor.unconfirmedTxns.delete", "visor.UnconfirmedTransactionPool.removeTransaction")
	r.checkCallers("C06-R1", "visor.UnconfirmedTransactionPool.InjectTransaction", "visor.Visor.InjectUserTransactionTx", "visor.Visor.InjectForeignTransaction$1", "visor.Visor.InjectForeignTransaction")
	// R2
	r.RequireAtCall("C06-R2", "visor.Visor.InjectUserTransactionTx", "iface:visor.UnconfirmedTransactionPooler.InjectTransaction", 1,
		req("user constraints", "ok(transaction.VerifySingleTxnUserConstraints($2))"),
		req("soft+hard constraints with the user verification parameters, signed", "ok(iface:visor.Blockchainer.VerifySingleTxnSoftHardConstraints($0.blockchain, $1, $2, $0.Config.Distribution, params.UserVerifyTxn, 1))"))
	// R3
	vr := "iface:visor.Blockchainer.VerifySingleTxnSoftHardConstraints($2, $1, $3, $4, $5, 1)#2"
	softOnly := req("verification returned nil or a soft-constraint error", "when: "+vr+" != nil => "+vr+".(transaction.ErrTxnViolatesSoftConstraint)#1")
	r.RequireAtCall("C06-R3", "visor.UnconfirmedTransactionPool.InjectTransaction", "visor.unconfirmedTxns.put", 1,
		softOnly, req("hash not yet in the pool", "!visor.unconfirmedTxns.hasKey($0.txns, $1, coin.Transaction.Hash*($3))#0"))
	r.RequireAtCall("C06-R3", "visor.UnconfirmedTransactionPool.InjectTransaction", "visor.unconfirmedTxns.update", 1,
		softOnly, req("hash already in the pool", "visor.unconfirmedTxns.hasKey($0.txns, $1, coin.Transaction.Hash*($3))#0"))
	r.RequireAtCall("C06-R3", "visor.UnconfirmedTransactionPool.InjectTransaction", "visor.txnUnspents.put", 1, softOnly)
	// R4
	r.RequireOnSuccess("C06-R4", "visor.Visor.executeSignedBlockUnsafe",
		req("block executed", "ok(iface:visor.Blockchainer.ExecuteBlock($0.blockchain, $1, $2))"),
		req("its transactions (the hashes of exactly the block's transactions) removed from the pool", "ok(iface:visor.UnconfirmedTransactionPooler.RemoveTransactions($0.unconfirmed, $1, fold[acc=nil; append(acc, [coin.Transaction.Hash($2.Block.Body.Transactions[i])])]))", "ok(iface:visor.UnconfirmedTransactionPooler.RemoveTransactions($0.unconfirmed, $1, make([]cipher.SHA256, len($2.Block.Body.Transactions))))"),
		req("history updated", "ok(iface:visor.Historyer.ParseBlock($0.history, $1, $2.Block))"))
	// when the hash list is pre-sized and filled by index, every slot gets the hash of the transaction of the same index
	if fn := r.P.Fn("visor.Visor.executeSignedBlockUnsafe"); fn != nil {
		ff := r.P.Facts(fn)
		for _, cs := range r.CallSites(fn, "iface:visor.UnconfirmedTransactionPooler.RemoveTransactions") {
			if t := ff.Term(cs.Common().Args[len(cs.Common().Args)-1]); strings.HasPrefix(t, "make(") {
				r.RequireStore("C06-R4", "visor.Visor.executeSignedBlockUnsafe", "slot i of the removed-hash list is the hash of the block's transaction i", t+"[i] := coin.Transaction.Hash($2.Block.Body.Transactions[i])")
			}
		}
	}
	// removing a block's transactions from the pool visits every hash handed in (no early stop), and removes
	// both the transaction record and its predicted outputs
	r.RequireOnSuccess("C06-R4", "visor.UnconfirmedTransactionPool.RemoveTransactions",
		req("every given hash is removed", "forall(i < len($2)): ok(visor.UnconfirmedTransactionPool.removeTransaction($0, $1, $2[i]))"))
	r.RequireOnSuccess("C06-R4", "visor.UnconfirmedTransactionPool.removeTransaction",
		req("transaction record deleted", "ok(visor.unconfirmedTxns.delete($0.txns, $1, $2))"),
		req("its predicted outputs deleted", "ok(visor.txnUnspents.delete($0.unspent, $1, $2))"))
	// R5
	hv := "iface:visor.Blockchainer.VerifySingleTxnHardConstraints($2, $1, *[i].Transaction, 1)"
	r.RequireOnSuccess("C06-R5", "visor.UnconfirmedTransactionPool.RemoveInvalid",
		req("every pooled txn re-checked; any error other than a hard violation aborts", "forall(i < len(*)): "+hv+" != nil => "+hv+".(transaction.ErrTxnViolatesHardConstraint)#1"),
		req("the collected hashes are removed", "ok(visor.UnconfirmedTransactionPool.RemoveTransactions($0, $1, *))"))
	sv := "iface:visor.Blockchainer.VerifySingleTxnSoftHardConstraints($2, $1, *.Transaction, $3, $4, 1)#2"
	r.RequireAtStore("C06-R5", "visor.UnconfirmedTransactionPool.Refresh", "*.IsValid := 1", 1, req("valid only if the verifier returned nil", sv+" == nil"))
	r.RequireAtStoreAnyPath("C06-R5", "visor.UnconfirmedTransactionPool.Refresh", "*.IsValid := 0", 1, req("invalid only if the verifier returned a soft or hard violation", sv+".(transaction.ErrTxnViolatesSoftConstraint)#1", sv+".(transaction.ErrTxnViolatesHardConstraint)#1"))
	r.RequireEveryIteration("C06-R5", "visor.UnconfirmedTransactionPool.Refresh", "visor.unconfirmedTxns.put")
	r.RequireOnSuccess("C06-R5", "visor.UnconfirmedTransactionPool.Refresh",
		req("every re-checked txn written back", "forall(i < len(*)): ok(visor.unconfirmedTxns.put($0.txns, $1, *))"))
}

// ruleProcessTxnsConflicts: intra-block conflicts (shared input, duplicate created
// output) reject the block, or skip the later transaction when arbitrating; the
// checks cover all pairs and all inputs (complete quantification).
func ruleProcessTxnsConflicts(r *Run, rule string) {
	// R2
	fn := r.fn(rule, "visor.Blockchain.processTransactions")
	if fn != nil {
		ff := r.P.Facts(fn)
		exits, facts := ff.SuccessFacts()
		n := 0
		for i, ex := range exits {
			if _, m := matchAny([]string{"len(*) == 0"}, facts[i]); m {
				continue // empty publisher block
			}
			n++
			_, m1 := matchAny([]string{"forall(i < *)(j=(i + 1);j < *)(k < len(*[i].In))(i4 < len(*[j].In)): *[i].In[k] == *[j].In[i4] => $0.cfg.Arbitrating"}, facts[i])
			r.Check(rule, "processTransactions: two txns of a block sharing an input reject the block unless arbitrating (all pairs i<j, all inputs)", r.P.Pos(ex.Pos), m1, "pairwise double-spend check missing or not covering all pairs/inputs on a success path")
			_, m2 := matchAny([]string{"forall(i < len(*))(j < len(*[i].Out)): * && lookup(set{coin.UxBody.Hash(*)}[coin.UxBody.Hash({Address: *[i].Out[j].Address, Coins: *[i].Out[j].Coins, Hours: *[i].Out[j].Hours, SrcTransaction: coin.Transaction.Hash(*[i])})])#1 => $0.cfg.Arbitrating"}, facts[i])
			r.Check(rule, "processTransactions: an output id created twice in a block rejects the block unless arbitrating", r.P.Pos(ex.Pos), m2, "duplicate-output check missing on a success path")
		}
		if n == 0 {
			r.Fail(rule, "processTransactions success exits", r.P.Pos(fn.Pos()), "none")
		}
		// arbitrating: the LATER transaction (index j) is the one skipped
		found := false
		for _, s := range ff.StoreFacts() {
			if glob("*[j] := zero", s.S) || glob("φ(map{}|set{i})[j] := *", s.S) || glob("*set{*}[j] := *", s.S) {
				var fs []string
				for _, a := range ff.MustAt(s.In) {
					fs = append(fs, a.S)
				}
				if _, m := matchAny([]string{"*[i].In[k] == *[j].In[i4]"}, fs); m {
					found = true
					r.Pass(rule, "processTransactions: on an input conflict the later txn (index j > i) is skipped", r.P.Pos(s.In.Pos()), s.S)
				}
			}
		}
		if !found {
			r.Fail(rule, "processTransactions: on an input conflict the later txn (index j > i) is skipped", r.P.Pos(fn.Pos()), "no skip[j] update under the input-conflict condition")
		}
	}
}
