package main

import (
	"strings"

	"golang.org/x/tools/go/ssa"
)

func init() { props["C13"] = checkC13 }

func checkC13(r *Run) {
	r.Explain = "C13: (R1) wallet.SignTransaction never writes through its txn parameter — the parameter's only use is the copy; (R2) every SignInput is dominated by: wallet can sign (not xpub, not encrypted), inner hash equals the computed one, indexes validated, slot null; success implies the inner hash is unchanged after signing; Transaction.SignInput itself requires a valid index, parallel Sigs, a null slot, and signs AddSHA256(InnerHash, In[index]); (R3) provenance: the index lists signed for a key are exactly the requested indexes (or all null slots) grouped by the owning address of the spent output, and the key is the secret of the wallet entry whose address equals that owner."
	r.NotDec = "that produced signatures verify (C14)"
	// the keys a bip44 wallet signs with are derived at the coordinates of the addresses they belong to
	ruleBip44SecretCoordinates(r, "C13-R4")
	ruleNullPredicates(r, "C13-R2", "cipher.Sig.Null")
	ruleEntryVerify(r, "C13-R5")
	const f = "wallet.SignTransaction"
	fn := r.fn("C13-R1", f)
	if fn == nil {
		return
	}
	ff := r.P.Facts(fn)
	// R1: uses of parameter txn ($1)
	p1 := fn.Params[1]
	okUse := true
	detail := ""
	for _, u := range *p1.Referrers() {
		switch x := u.(type) {
		case *ssa.Call:
			if calleeName(&x.Call) != "wallet.copyTransaction" {
				okUse = false
				detail = "txn passed to " + calleeName(&x.Call)
			}
		case *ssa.DebugRef:
		default:
			okUse = false
			detail = "txn used by " + u.String()
		}
	}
	r.Check("C13-R1", f+": the txn parameter is only copied, never written or passed on", r.P.Pos(fn.Pos()), okUse, detail)
	for _, s := range ff.StoreFacts() {
		if strings.HasPrefix(s.S, "$1.") || strings.HasPrefix(s.S, "$1[") {
			r.Check("C13-R1", f+": store through txn parameter "+trunc(s.S, 60), r.P.Pos(s.In.Pos()), false, s.S)
		}
	}
	// copyTransaction produces an independent deep copy of Sigs/In/Out
	r.RequireStore("C13-R1", "wallet.copyTransaction", "Sigs are copied into a fresh slice", "local:txn2.Sigs := make([]cipher.Sig, len($0.Sigs))", "*.Sigs := make([]cipher.Sig, len($0.Sigs))")
	r.RequireStore("C13-R1", "wallet.copyTransaction", "In is copied into a fresh slice", "*.In := make([]cipher.SHA256, len($0.In))")
	r.RequireStore("C13-R1", "wallet.copyTransaction", "Out is copied into a fresh slice", "*.Out := make([]coin.TransactionOutput, len($0.Out))")

	cp := "wallet.copyTransaction($1)"
	pre := []Req{
		req("wallet type can sign (not xpub)", `iface:wallet.Wallet.Type($0) != "xpub"`),
		req("wallet not encrypted", "!iface:wallet.Wallet.IsEncrypted($0)"),
		req("inner hash equals the computed inner hash", "coin.Transaction.HashInner("+cp+") == "+cp+".InnerHash"),
		req("one spent output per input", "len($3) == len("+cp+".In)"),
		req("requested indexes validated (in range, no duplicates)", "ok(wallet.validateSignIndexes($2, $3))"),
		req("wallet entries readable", "ok(iface:wallet.Wallet.GetEntries($0, nil))"),
		req("the wallet holds a key for every address that must sign", "len(set{iface:wallet.Wallet.GetEntries($0, nil)#0[i].Secret}) == len(set{$3[$2[i]].Body.Address|$3[i].Body.Address})"),
	}
	sites := r.RequireAtCall("C13-R2", f, "coin.Transaction.SignInput", 1, append(pre,
		req("never overwrites an existing signature", "cipher.Sig.Null*("+cp+".Sigs[next(range(set{*}))#2[j]])"))...)
	for _, cs := range sites {
		r.Check("C13-R3", f+": SignInput(copy, key k, index x) with (k, indexes) ranging over the toSign map", r.P.Pos(cs.Pos()),
			r.argTerm(cs, 0) == cp && glob("next(range(set{iface:wallet.Wallet.GetEntries($0, nil)#0[i].Secret}))#1", r.argTerm(cs, 1)) && glob("next(range(set{iface:wallet.Wallet.GetEntries($0, nil)#0[i].Secret}))#2[j]", r.argTerm(cs, 2)),
			"SignInput("+r.argTerm(cs, 0)+", "+trunc(r.argTerm(cs, 1), 60)+", "+trunc(r.argTerm(cs, 2), 60)+")")
	}
	r.RequireOnSuccess("C13-R2", f, append(pre,
		req("header updated", "ok(coin.Transaction.UpdateHeader("+cp+"))"),
		req("inner hash unchanged by signing (re-computed after)", "coin.Transaction.HashInner("+cp+") == coin.Transaction.HashInner@2("+cp+")"),
		req("every requested slot was null and got signed", "forall(range set{*})(j < len(*)): ok(coin.Transaction.SignInput("+cp+", *#1, *#2[j]))"))...)
	// R3 provenance of the index lists and keys
	am := "set{$3[$2[i]].Body.Address|$3[i].Body.Address}"
	r.RequireStore("C13-R3", f, "explicit request: index in goes to the list of the address owning uxOuts[in]", am+"[$3[$2[i]].Body.Address] := append("+am+"[$3[$2[i]].Body.Address], [$2[i]])")
	r.RequireStore("C13-R3", f, "no explicit request: index i goes to the list of the address owning uxOuts[i]", am+"[$3[i].Body.Address] := append("+am+"[$3[i].Body.Address], [i])")
	r.RequireAtStore("C13-R3", f, am+"[$3[i].Body.Address] := *", 1, req("only unsigned slots are collected", "cipher.Sig.Null*("+cp+".Sigs[i])"), req("only when no explicit indexes were given", "len($2) <= 0"))
	r.RequireAtStore("C13-R3", f, am+"[$3[$2[i]].Body.Address] := *", 1, req("requested slot is unsigned", "cipher.Sig.Null*("+cp+".Sigs[$2[i]])"), req("explicit indexes given", "0 < len($2)"))
	ent := "iface:wallet.Wallet.GetEntries($0, nil)#0[i]"
	r.RequireStore("C13-R3", f, "toSign[e.Secret] = the index list of e's own address", "set{"+ent+".Secret}["+ent+".Secret] := lookup("+am+"[wallet.Entry.SkycoinAddress("+ent+")])#0")
	r.RequireAtStore("C13-R3", f, "set{"+ent+".Secret}["+ent+".Secret] := *", 1, req("only for addresses that must sign", "lookup("+am+"[wallet.Entry.SkycoinAddress("+ent+")])#1"))
	// exactly these three map updates exist
	nmu := 0
	for _, s := range ff.StoreFacts() {
		if _, ok := s.In.(*ssa.MapUpdate); ok {
			nmu++
		}
	}
	r.Check("C13-R3", f+": exactly three map updates (two addrsMap fills, one toSign fill)", r.P.Pos(fn.Pos()), nmu == 3, "")
	r.RequireOnSuccess("C13-R2", "wallet.validateSignIndexes",
		req("no more indexes than inputs", "len($0) <= len($1)"),
		req("each index in range", "forall(i < len($0)): $0[i] < len($1)"),
		req("each index non-negative", "forall(i < len($0)): 0 <= $0[i]"),
		req("no duplicate index", "forall(i < len($0)): !lookup(set{$0[i]}[$0[i]])#1"))
	r.RequireOnSuccess("C13-R2", "coin.Transaction.SignInput",
		req("index within the inputs", "$2 < len($0.In)"), req("index non-negative", "0 <= $2"),
		req("signature slots parallel to inputs", "len($0.In) == len($0.Sigs)"),
		req("slot is null", "cipher.Sig.Null($0.Sigs[$2])"))
	r.RequireStore("C13-R2", "coin.Transaction.SignInput", "signs AddSHA256(InnerHash, In[index]) with the given key into Sigs[index]", "$0.Sigs[$2] := cipher.MustSignHash(cipher.AddSHA256($0.InnerHash, $0.In[$2]), $1)")
}
