package main

import (
	"fmt"
	"go/constant"
	"go/token"
	"go/types"
	"regexp"
	"sort"
	"strings"

	"golang.org/x/tools/go/ssa"
)

func init() { props["C27"] = checkC27 }

func checkC27(r *Run) {
	r.Explain = "(R2+) create() hands the access-control fields of Config (enabled API sets, CSRF / header-check switches, host whitelist, credentials, host) to the mux unchanged; (R3+) the CSRF signing secret is written once, by package initialisation, from at least 32 random bytes (never lazily); C27: (R1) every route is registered through webHandlerWithOptionals — the only caller of mux.Handle — whose handler composition is Elapsed -> CORS -> [CSRF check] -> [origin/referer + host check] -> [JSON content type for v2] -> basic auth -> gzip, with CSRF checking off only for /api/v1/csrf and header checks following the configuration; (R2) the extracted table (path, method -> API sets, csrf) equals the reviewed reference table, and the README's 'API sets' lines are compared (differences reported); (R3) each middleware reaches the wrapped handler only under its documented condition (method served and an enabled API set; token verified for POST/PUT/DELETE unless disabled; host whitelisted; origin checked when present, referer only when origin is empty; exact credentials); token verification requires two parts, equal signature, not expired; (R4) credentials are compared separately, not as a hash of their concatenation; (R5) 'a new token invalidates earlier ones' needs state written on issue and read on verify."
	r.NotDec = "status codes and bodies of concrete requests; TLS/transport"
	ruleNoCrossedConfig(r, "C27-R0")
	// R1
	whwo := r.P.ClosureByVar("api.newServerMux", "webHandlerWithOptionals")
	if whwo == nil {
		r.Fail("C27-R1", "webHandlerWithOptionals closure", "", "anchor-unresolved")
		return
	}
	nh := 0
	for _, fn := range r.P.ModFns {
		for _, b := range fn.Blocks {
			for _, in := range b.Instrs {
				if ci, ok := in.(ssa.CallInstruction); ok && (calleeName(ci.Common()) == "http.ServeMux.Handle" || calleeName(ci.Common()) == "http.ServeMux.HandleFunc" || calleeName(ci.Common()) == "http.Handle" || calleeName(ci.Common()) == "http.HandleFunc") {
					if !strings.HasPrefix(FnName(fn), "api.") {
						continue // other servers (cli helpers, pprof) are not the node API
					}
					nh++
					r.Check("C27-R1", "mux registration in "+FnName(fn), r.P.Pos(ci.Pos()), fn == whwo, "routes must be registered only through webHandlerWithOptionals")
				}
			}
		}
	}
	r.Min("C27-R1", 1)
	ff := r.P.Facts(whwo)
	for _, cs := range r.CallSites(whwo, "http.ServeMux.Handle") {
		got := ff.Term(cs.Common().Args[2])
		core := "cors.Cors.Handler(^*cors.Cors, util/http.ElapsedHandler(api.logger, $2))"
		ok := strings.HasPrefix(got, "util/gziphandler.New(api.basicAuth($0, ^$^0.username, ^$^0.password, \"skycoin daemon\", ") &&
			strings.Contains(got, "api.CSRFCheck($0, ^$^0.disableCSRF, "+core+")") && // csrf wraps cors(elapsed(h))
			strings.Contains(got, "dyn:^api.newServerMux$1($0, ^$^0.host, ^$^0.hostWhitelist, φ(api.CSRFCheck(") && // header checks wrap the csrf layer
			strings.Contains(got, "api.ContentTypeJSONRequired(φ(dyn:^api.newServerMux$1(") && // json wraps the header layer
			strings.Contains(got, "|"+core+")") // each optional layer has a pass-through alternative
		r.Check("C27-R1", "handler composition gzip(basicAuth([json]([headers]([csrf](cors(elapsed(h)))))))", r.P.Pos(cs.Pos()), ok, trunc(got, 700))
		r.Check("C27-R1", "registered under the given endpoint", r.P.Pos(cs.Pos()), ff.Term(cs.Common().Args[1]) == "$1", "")
	}
	// the optional layers are conditional on exactly their flags
	for _, b := range whwo.Blocks {
		for _, in := range b.Instrs {
			c, ok := in.(*ssa.Call)
			if !ok {
				continue
			}
			var fs []string
			for _, a := range ff.Must(b) {
				fs = append(fs, a.S)
			}
			switch calleeName(&c.Call) {
			case "api.CSRFCheck":
				_, m := matchAny([]string{"$3"}, fs)
				r.Check("C27-R1", "CSRF layer added iff checkCSRF", r.P.Pos(c.Pos()), m, "")
			case "api.ContentTypeJSONRequired":
				_, m := matchAny([]string{`$0 == "v2"`}, fs)
				r.Check("C27-R1", "JSON content-type layer added iff api v2", r.P.Pos(c.Pos()), m, strings.Join(fs, ";"))
			}
		}
	}
	if hc := r.P.ClosureByVar("api.newServerMux", "headerCheck"); hc != nil {
		hf := r.P.Facts(hc)
		for _, ex := range hf.Exits() {
			if ex.Ret != nil && len(ex.Ret.Results) == 1 {
				t := hf.Term(ex.Ret.Results[0])
				r.Check("C27-R1", "headerCheck = hostCheck(originRefererCheck(h))", r.P.Pos(ex.Pos), t == "api.hostCheck($0, $1, $2, api.originRefererCheck($0, $1, $2, $3))", t)
			}
		}
	}
	if wh := r.P.ClosureByVar("api.newServerMux", "webHandler"); wh != nil {
		wf := r.P.Facts(wh)
		for _, b := range wh.Blocks {
			for _, in := range b.Instrs {
				if c, ok := in.(*ssa.Call); ok && strings.Contains(wf.Term(c), "webHandlerWithOptionals") || ok && strings.HasPrefix(wf.Term(c), "dyn:^webHandlerWithOptionals") {
					t := wf.Term(c)
					okc := strings.Contains(t, ", true, !^$^0.disableHeaderCheck)")
					r.Check("C27-R1", "webHandler: CSRF checking on, header checks follow the configuration", r.P.Pos(c.Pos()), okc, trunc(t, 300))
				}
			}
		}
	}
	// R2 table
	routes, probs := r.P.extractRoutes()
	for _, p := range probs {
		r.Fail("C27-R2", "route extraction: "+p, "", "undecided")
	}
	got := map[string]Route{}
	for _, rt := range routes {
		if rt.Dynamic {
			ok := rt.Methods == nil && rt.CSRF && rt.Handler == "fs"
			r.Check("C27-R2", "dynamic static-file routes serve only the file server, always enabled", r.P.Pos(rt.Pos), ok, rt.Handler)
			continue
		}
		got[routeKey(rt)] = rt
	}
	want := map[string]bool{}
	for _, k := range routesRef {
		want[k] = true
	}
	var keys []string
	for k := range got {
		keys = append(keys, k)
	}
	sort.Strings(keys)
	for _, k := range keys {
		r.Check("C27-R2", "route "+k, r.P.Pos(got[k].Pos), want[k], "registration differs from the reviewed access-control table (path / method / API set / csrf)")
	}
	for _, k := range routesRef {
		if _, ok := got[k]; !ok {
			r.Fail("C27-R2", "route "+k, "", "route of the reviewed table is no longer registered like this")
		}
	}
	r.Units["routes"] = len(routes)
	for k, rt := range got {
		if rt.Methods == nil {
			p := strings.Fields(k)[0]
			r.Check("C27-R2", "always-enabled route "+p+" is one of {/, /api/v1/version, /api/v1/csrf}", r.P.Pos(rt.Pos), p == "/" || p == "/api/v1/version" || p == "/api/v1/csrf", "")
		}
	}
	compareREADME(r, got)

	// R3 middleware closures
	fm := r.P.ClosureByVar("api.newServerMux", "forMethodAPISets")
	if fm != nil && len(fm.AnonFuncs) == 1 {
		h := fm.AnonFuncs[0]
		r.RequireAtCallFn("C27-R3", h, "iface:http.Handler.ServeHTTP", 1,
			req("the request method is served here (has API sets)", "len(^$^2[$1.Method]) != 0"),
			req("one of the endpoint's API sets is enabled", "lookup(^$^^0.enabledAPISets[^$^2[$1.Method][i]])#1"))
	} else {
		r.Fail("C27-R3", "forMethodAPISets handler", "", "anchor-unresolved")
	}
	if f := r.P.Fn("api.CSRFCheck:1"); f != nil {
		r.RequireAtCallAllPaths("C27-R3", f, "iface:http.Handler.ServeHTTP", 1,
			req("checking disabled, or method is not POST/PUT/DELETE, or the token verified",
				"^$^1", "ok(api.verifyCSRFToken(http.Header.Get($1.Header, \"X-CSRF-Token\")))", `$1.Method != "DELETE"`))
		// the non-state-changing escape must exclude all three methods
		r.RequireAtCallAllPaths("C27-R3", f, "iface:http.Handler.ServeHTTP", 1,
			req("POST never reaches the handler unverified", "^$^1", "ok(api.verifyCSRFToken(*))", `$1.Method != "POST"`))
		r.RequireAtCallAllPaths("C27-R3", f, "iface:http.Handler.ServeHTTP", 1,
			req("PUT never reaches the handler unverified", "^$^1", "ok(api.verifyCSRFToken(*))", `$1.Method != "PUT"`))
	} else {
		r.Fail("C27-R3", "CSRFCheck handler", "", "anchor-unresolved")
	}
	if f := r.P.Fn("api.hostCheck:1"); f != nil {
		r.RequireAtCallFn("C27-R3", f, "iface:http.Handler.ServeHTTP", 1,
			req("on a localhost interface a non-empty Host header must be whitelisted", `when: $1.Host != "" && ^util/iputil.IsLocalhost(φ($^1|util/iputil.SplitAddr($^1)#0)) => lookup(^map{}[$1.Host])#1`))
	}
	if f := r.P.Fn("api.originRefererCheck:1"); f != nil {
		tc := `φ(http.Header.Get($1.Header, "Origin")|http.Header.Get($1.Header, "Referer"))`
		r.RequireAtCallFn("C27-R3", f, "iface:http.Handler.ServeHTTP", 1,
			req("a present Origin/Referer must parse", "when: "+tc+` != "" => ok(url.Parse(`+tc+"))"),
			req("and its host must be whitelisted", "when: "+tc+` != "" => lookup(^map{}[url.Parse(`+tc+")#0.Host])#1"))
		r.RequirePhiEdgeAllPaths("C27-R3", f, `http.Header.Get($1.Header, "Referer")`, req("the Origin header is absent (empty)", `http.Header.Get($1.Header, "Origin") == ""`))
	}
	if f := r.P.Fn("api.basicAuth:1"); f != nil {
		u := `subtle.ConstantTimeCompare(cipher.SumSHA256([]byte(http.Request.BasicAuth($1)#0))[:], ^cipher.SumSHA256([]byte($^1))[:])`
		p := `subtle.ConstantTimeCompare(cipher.SumSHA256([]byte(http.Request.BasicAuth($1)#1))[:], ^cipher.SumSHA256*([]byte($^2))[:])`
		r.RequireAtCallFn("C27-R3", f, "iface:http.Handler.ServeHTTP", 1,
			req("with credentials configured, the request carries basic auth", `when: ^φ(($^2 != "")|true) => http.Request.BasicAuth($1)#2`),
			req("and both username and password match", `when: ^φ(($^2 != "")|true) => (`+u+" & "+p+") == 1"),
			req("without credentials configured, the request carries none", `when: !^φ(($^2 != "")|true) => http.Request.BasicAuth($1)#0 == ""`))
	}
	// R4: no digest of a bare concatenation of the two credentials
	if f := r.fn("C27-R4", "api.basicAuth"); f != nil {
		bad := ""
		for _, g := range append([]*ssa.Function{f}, f.AnonFuncs...) {
			gf := r.P.Facts(g)
			for _, b := range g.Blocks {
				for _, in := range b.Instrs {
					if c, ok := in.(*ssa.Call); ok && strings.HasPrefix(calleeName(&c.Call), "cipher.SumSHA256") {
						t := gf.Term(c)
						if strings.Contains(t, "append(") || strings.Contains(t, " + ") {
							bad = t
						}
					}
				}
			}
		}
		r.Check("C27-R4", "api.basicAuth: digest of bare concatenation user||pass", r.P.Pos(f.Pos()), bad == "", "credential splitting: ("+"ab"+","+"c"+") and (a,bc) hash alike: "+trunc(bad, 200))
		r.RequireStore("C27-R4", "api.basicAuth", "configured username hashed on its own", "*usernameHash := cipher.SumSHA256([]byte($1))", "local:usernameHash := cipher.SumSHA256*([]byte($1))", "* := cipher.SumSHA256([]byte($1))")
		r.RequireStore("C27-R4", "api.basicAuth", "configured password hashed on its own", "* := cipher.SumSHA256@2([]byte($2))", "* := cipher.SumSHA256*([]byte($2))")
	}
	tp := `strings.Split($0, ".")`
	r.RequireOnSuccess("C27-R3", "api.verifyCSRFToken",
		req("token has two parts", "len("+tp+") == 2"),
		req("payload decodes", "ok(base64.Encoding.DecodeString(base64.RawURLEncoding, "+tp+"[0]))"),
		req("signature equals HMAC(secret, payload)", "base64.Encoding.EncodeToString(base64.RawURLEncoding, iface:hash.Hash.Sum(hmac.New(sha256.New, api.csrfSecretKey), nil)) == "+tp+"[1]"),
		req("payload parses", "ok(json.Unmarshal(*))"),
		req("not expired", "!time.Time.After(time.Now(), *ExpiresAt)"))
	// the Host check is armed for every loopback bind: IsLocalhost is the standard loopback predicate or the name
	if fn := r.fn("C27-R2", "util/iputil.IsLocalhost"); fn != nil {
		ff := r.P.Facts(fn)
		okT, okF := false, false
		n := 0
		for _, e := range ff.Exits() {
			n++
			var fs []string
			for _, a := range ff.Must(e.Block) {
				fs = append(fs, a.S)
			}
			fs = append(fs, e.Extra...)
			switch e.Desc {
			case "true":
				_, okT = matchAny([]string{"net.IP.IsLoopback(net.ParseIP($0))"}, fs)
			case "($0 == \"localhost\")":
				_, okF = matchAny([]string{"!net.IP.IsLoopback(net.ParseIP($0))"}, fs)
			}
		}
		r.Check("C27-R2", "util/iputil.IsLocalhost: true for every loopback address (net.IP.IsLoopback), otherwise only for the name localhost", r.P.Pos(fn.Pos()), okT && okF && n == 2, fmt.Sprint(n, okT, okF))
	}
	// the set of enabled API sets is built from the option values under the same normalisation the option
	// validator applied to them: a name that was accepted is the name that is inserted / deleted
	if vf, bf := r.fn("C27-R2", "skycoin.validateAPISets"), r.fn("C27-R2", "skycoin.buildAPISets"); vf != nil && bf != nil {
		elem := regexp.MustCompile(`(strings\.Split\(\$0\.\w+, ","\)|\$1)\[i\]`)
		norm := func(t string) string { return elem.ReplaceAllString(t, "ELEM") }
		vff, bff := r.P.Facts(vf), r.P.Facts(bf)
		validated := ""
		for _, b := range vf.Blocks {
			for _, in := range b.Instrs {
				if bo, ok := in.(*ssa.BinOp); ok && bo.Op == token.EQL {
					if c, isC := bo.Y.(*ssa.Const); isC && c.Value != nil && c.Value.Kind() == constant.String && constant.StringVal(c.Value) == "READ" {
						validated = norm(vff.Term(bo.X))
					}
				}
			}
		}
		r.Check("C27-R2", "skycoin.validateAPISets: the validated form of an API set name was identified", r.P.Pos(vf.Pos()), strings.Contains(validated, "ELEM"), validated)
		nKeys := 0
		for _, b := range bf.Blocks {
			for _, in := range b.Instrs {
				var key ssa.Value
				switch x := in.(type) {
				case *ssa.MapUpdate:
					key = x.Key
				case *ssa.Call:
					if calleeName(&x.Call) == "delete" {
						key = x.Call.Args[1]
					}
				}
				if key == nil {
					continue
				}
				t := norm(bff.Term(key))
				if !strings.Contains(t, "ELEM") {
					continue // the built-in list of -enable-all-api-sets
				}
				nKeys++
				r.Check("C27-R2", "skycoin.buildAPISets: an option value enters / leaves the enabled set under the name that was validated", r.P.Pos(in.Pos()), t == validated,
					"applied as "+t+", validated as "+validated+": a spelling the validator accepts (blanks, lower case) is not applied, the set stays enabled / disabled")
			}
		}
		r.Check("C27-R2", "skycoin.buildAPISets: option values applied", r.P.Pos(bf.Pos()), nKeys == 2, fmt.Sprint(nKeys))
	}
	// the node's access-control settings reach api.Config unconditionally and under their own names: what
	// createGUI hands to api.Create / api.CreateHTTPS is one literal holding the configured values
	if fn := r.fn("C27-R2", "skycoin.Coin.createGUI"); fn != nil {
		nC := 0
		for _, callee := range []string{"api.Create", "api.CreateHTTPS"} {
			for _, cs := range r.CallSites(fn, callee) {
				nC++
				t := r.argTerm(cs, 1) + ","
				for _, pr := range [][2]string{{"Username", "WebInterfaceUsername"}, {"Password", "WebInterfacePassword"}, {"DisableCSRF", "DisableCSRF"}, {"DisableHeaderCheck", "DisableHeaderCheck"}, {"EnabledAPISets", "enabledAPISets"}, {"HostWhitelist", "hostWhitelist"}} {
					want := " " + pr[0] + ": $0.config.Node." + pr[1] + ","
					r.Check("C27-R2", "skycoin.Coin.createGUI -> "+callee+": api.Config."+pr[0]+" is the node's "+pr[1]+", copied unconditionally", r.P.Pos(cs.Pos()), strings.Contains(" "+strings.TrimPrefix(t, "{"), want) || strings.Contains(t, "{"+pr[0]+": $0.config.Node."+pr[1]+","), trunc(t, 300))
				}
			}
		}
		r.Check("C27-R2", "skycoin.Coin.createGUI: API server constructors called", r.P.Pos(fn.Pos()), nC == 2, fmt.Sprint(nC))
		// ... unconditionally: each of those fields is assigned on every path to the constructor calls
		sec := map[string]bool{"Username": true, "Password": true, "DisableCSRF": true, "DisableHeaderCheck": true, "EnabledAPISets": true, "HostWhitelist": true}
		nSt := 0
		for _, b := range fn.Blocks {
			for _, in := range b.Instrs {
				st, ok := in.(*ssa.Store)
				if !ok {
					continue
				}
				fa, ok := st.Addr.(*ssa.FieldAddr)
				if !ok {
					continue
				}
				sty := derefStruct(fa.X.Type())
				if sty == nil || !sec[sty.Field(fa.Field).Name()] || !strings.HasSuffix(types.TypeString(derefType(fa.X.Type()), nil), "/api.Config") {
					continue
				}
				nSt++
				dom := true
				for _, callee := range []string{"api.Create", "api.CreateHTTPS"} {
					for _, cs := range r.CallSites(fn, callee) {
						if b != cs.Block() && !b.Dominates(cs.Block()) {
							dom = false
						}
					}
				}
				r.Check("C27-R2", "skycoin.Coin.createGUI: api.Config."+sty.Field(fa.Field).Name()+" is set on every path to the API server constructors", r.P.Pos(in.Pos()), dom, "the setting is copied only under a condition: with the condition false the server runs with the zero value (check disabled)")
			}
		}
		r.Check("C27-R2", "skycoin.Coin.createGUI: security-relevant api.Config assignments", r.P.Pos(fn.Pos()), nSt >= 6, fmt.Sprint(nSt))
	}
	// the access-control configuration reaches the mux exactly as the caller gave it: create() copies each
	// security-relevant Config field into muxConfig unchanged and never rewrites it (no silent defaults)
	if fn := r.fn("C27-R2", "api.create"); fn != nil {
		fs := r.fieldStores(fn)
		for _, pr := range [][2]string{{"enabledAPISets", "EnabledAPISets"}, {"disableCSRF", "DisableCSRF"}, {"disableHeaderCheck", "DisableHeaderCheck"}, {"hostWhitelist", "HostWhitelist"}, {"username", "Username"}, {"password", "Password"}} {
			v := fs[pr[0]]
			ok := (v == "$1."+pr[1] || glob("$1{*}."+pr[1], v)) && !strings.Contains(v, pr[1]+":")
			r.Check("C27-R2", "api.create: muxConfig."+pr[0]+" is Config."+pr[1]+" as given (not defaulted or rewritten)", r.P.Pos(fn.Pos()), ok, trunc(v, 200))
		}
		r.Check("C27-R2", "api.create: muxConfig.host is the host argument", r.P.Pos(fn.Pos()), fs["host"] == "$0", fs["host"])
	}
	// the signing secret exists before any request can be verified: it is written by package initialisation
	// only (never lazily, never again), from the random source, with a fixed non-trivial length
	nW := 0
	for _, fn := range r.P.ModFns {
		ff := r.P.Facts(fn)
		for _, b := range fn.Blocks {
			for _, in := range b.Instrs {
				st, ok := in.(*ssa.Store)
				if !ok {
					continue
				}
				g, ok := st.Addr.(*ssa.Global)
				if !ok || g.Name() != "csrfSecretKey" || g.Pkg.Pkg.Name() != "api" {
					continue
				}
				nW++
				isInit := strings.HasPrefix(fn.Name(), "init") && fn.Parent() == nil && fn.Signature.Recv() == nil && fn.Signature.Params().Len() == 0
				t := ff.Term(st.Val)
				okLen := false
				if m := globCapture("cipher.RandByte(*)", t); m != nil {
					var n int
					fmt.Sscanf(m[0], "%d", &n)
					okLen = n >= 32
				}
				r.Check("C27-R3", "api.csrfSecretKey is set by package initialisation ("+FnName(fn)+"), before the server can verify anything", r.P.Pos(st.Pos()), isInit, "a secret created lazily is empty (a known key) for every verification that precedes its creation")
				r.Check("C27-R3", "api.csrfSecretKey is at least 32 random bytes", r.P.Pos(st.Pos()), okLen, t)
			}
		}
	}
	r.Check("C27-R3", "api.csrfSecretKey has exactly one writer", "", nW == 1, fmt.Sprint(nW))
	// R5
	issueWrites := globalsWrittenFrom(r, "api.newCSRFToken", "api.getCSRFToken")
	verifyReads := globalsReadFrom(r, "api.verifyCSRFToken")
	coupled := false
	for g := range issueWrites {
		if verifyReads[g] {
			coupled = true
		}
	}
	r.Check("C27-R5", "api.getCSRFToken/verifyCSRFToken: issuing a token writes state that verification reads", "", coupled,
		fmt.Sprintf("tokens are stateless HMACs: issue path writes %v, verify path reads %v — a previously issued token stays valid until it expires, contrary to the documented 'Previous CSRF tokens are invalidated by this call'", keysOf(issueWrites), keysOf(verifyReads)))
}

func keysOf(m map[string]bool) []string {
	var out []string
	for k := range m {
		out = append(out, k)
	}
	sort.Strings(out)
	return out
}

func globalsWrittenFrom(r *Run, refs ...string) map[string]bool {
	out := map[string]bool{}
	seen := map[*ssa.Function]bool{}
	var visit func(f *ssa.Function, d int)
	visit = func(f *ssa.Function, d int) {
		if f == nil || seen[f] || f.Blocks == nil || d > 4 || !InModule(f) {
			return
		}
		seen[f] = true
		for _, b := range f.Blocks {
			for _, in := range b.Instrs {
				if st, ok := in.(*ssa.Store); ok {
					if g := rootGlobal(st.Addr); g != "" {
						out[g] = true
					}
				}
				if c, ok := in.(ssa.CallInstruction); ok {
					visit(c.Common().StaticCallee(), d+1)
				}
			}
		}
		for _, a := range f.AnonFuncs {
			visit(a, d+1)
		}
	}
	for _, ref := range refs {
		visit(r.P.Fn(ref), 0)
	}
	return out
}

func globalsReadFrom(r *Run, refs ...string) map[string]bool {
	out := map[string]bool{}
	seen := map[*ssa.Function]bool{}
	var visit func(f *ssa.Function, d int)
	visit = func(f *ssa.Function, d int) {
		if f == nil || seen[f] || f.Blocks == nil || d > 4 || !InModule(f) {
			return
		}
		seen[f] = true
		for _, b := range f.Blocks {
			for _, in := range b.Instrs {
				if u, ok := in.(*ssa.UnOp); ok {
					if g := rootGlobal(u.X); g != "" {
						out[g] = true
					}
				}
				if c, ok := in.(ssa.CallInstruction); ok {
					visit(c.Common().StaticCallee(), d+1)
				}
			}
		}
	}
	for _, ref := range refs {
		visit(r.P.Fn(ref), 0)
	}
	return out
}

func rootGlobal(v ssa.Value) string {
	for d := 0; d < 10; d++ {
		switch x := v.(type) {
		case *ssa.Global:
			if x.Pkg != nil {
				return shortPkg(x.Pkg.Pkg.Path()) + "." + x.Name()
			}
			return x.Name()
		case *ssa.FieldAddr:
			v = x.X
		case *ssa.IndexAddr:
			v = x.X
		default:
			return ""
		}
	}
	return ""
}
