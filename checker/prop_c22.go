package main

import (
	"fmt"
	"go/ast"
	"go/constant"
	"go/types"
	"sort"
	"strings"

	"golang.org/x/tools/go/ssa"
)

func init() { props["C22"] = checkC22 }

func checkC22(r *Run) {
	r.Explain = "(R4+) every slice/index expression in the message handlers that run on the event loop (process methods, IntroductionMessage.Verify, onMessageEvent) is in bounds; (R1+) in the read loop every successful append to the connection buffer is followed by decodeData before the next read, and every frame decodeData returns is offered to the message channel in order; C22: (R1) decodeData consumes a frame only after: length prefix decoded, 4 <= length <= max, the whole frame is buffered; every consumed frame is copied into a fresh slice filled by a successful Read and appended; every non-error return hands back the accumulated frames (none consumed is dropped); the loop runs while more than a prefix is buffered; an invalid length is the only disconnect reason; (R2) convertToMessage succeeds only for a known id, a body that decodes, and no trailing bytes, and its rejections are exactly the four documented disconnect reasons; deserialization runs under a deferred recover; (R3) the 12 registered message types have distinct 4-byte prefixes, implement gnet.Message, decode with their generated codec (or carry no body) and are dispatched asynchronously; (R4) bounds of the slices over received bytes."
	r.NotDec = "delivery order under arbitrary chunkings as a history property (the per-call structural conditions above are necessary for it)"
	ruleConfigPassthrough(r, "C22-R5")
	const dd = "daemon/gnet.decodeData"
	fn := r.fn("C22-R1", dd)
	if fn == nil {
		return
	}
	ff := r.P.Facts(fn)
	length := "int(cipher/encoder.DeserializeUint32(bytes.Buffer.Bytes($0)[:4])#0)"
	frame := "make([]byte, " + length + ")"
	nl := 0
	for _, lp := range ff.loops {
		for _, lt := range lp.Latches {
			nl++
			var fs []string
			for _, a := range ff.Must(lt) {
				fs = append(fs, a.S)
			}
			for _, q := range []Req{
				req("length prefix decoded", "ok(cipher/encoder.DeserializeUint32(bytes.Buffer.Bytes($0)[:4]))"),
				req("length at least the message id size", "4 <= "+length),
				req("length at most the configured maximum", length+" <= $1"),
				req("the whole frame is buffered", length+" <= (bytes.Buffer.Len@2($0) - 4)"),
				req("frame bytes read into the copy without error", "ok(bytes.Buffer.Read($0, "+frame+"))"),
			} {
				_, m := matchAny(q.Pats, fs)
				r.Check("C22-R1", dd+": a frame is consumed only if "+q.Name, r.P.Pos(ff.condPos(lt)), m, "latch facts: "+trunc(strings.Join(fs, " ; "), 400))
			}
			r.Check("C22-R1", dd+": keeps decoding while more than a length prefix is buffered", r.P.Pos(ff.condPos(lp.Header)), ff.loopSpace(lp) == "? 4 < bytes.Buffer.Len($0)", ff.loopSpace(lp))
		}
	}
	r.Check("C22-R1", dd+": one decoding loop", r.P.Pos(fn.Pos()), nl == 1, "")
	r.RequireStore("C22-R1", dd, "each delivered frame is a fresh copy (not an alias of the connection buffer)", "local:varargs[0] := "+frame)
	acc := "fold[acc=[]; append(acc, [" + frame + "])]"
	for _, ex := range ff.Exits() {
		if ex.Ret == nil || len(ex.Ret.Results) != 2 {
			continue
		}
		got := ff.Term(ex.Ret.Results[0])
		errT := ff.Term(ex.Ret.Results[1])
		switch {
		case errT == "nil":
			r.Check("C22-R1", dd+": a return without error hands back every frame consumed so far", r.P.Pos(ex.Pos), got == acc, "returns "+trunc(got, 120)+" (frames already read off the buffer would be lost)")
		case errT == "daemon/gnet.ErrDisconnectInvalidMessageLength":
			var fs []string
			for _, a := range ff.Must(ex.Block) {
				fs = append(fs, a.S)
			}
			_, m := matchAny([]string{length + " < 4", "$1 < " + length}, fs)
			r.Check("C22-R1", dd+": invalid-length disconnect only for length < 4 or length > max", r.P.Pos(ex.Pos), m, "")
		default:
			// the two length checks may live in a single-use helper: then every error the helper returns must be
			// the invalid-length disconnect, under the same conditions
			if hc, ok := ex.Ret.Results[1].(*ssa.Call); ok {
				if h := hc.Call.StaticCallee(); h != nil && r.P.singleUse(h) {
					hf := r.P.Facts(h)
					var args []string
					for _, a := range hc.Call.Args {
						args = append(args, ff.Term(a))
					}
					good, n := true, 0
					for _, hx := range hf.Exits() {
						if hx.Kind == ExitSuccess || hx.Ret == nil {
							continue
						}
						n++
						var fs []string
						for _, a := range hf.Must(hx.Block) {
							fs = append(fs, substParams(a.S, args))
						}
						_, m := matchAny([]string{length + " < 4", "$1 < " + length}, fs)
						if hf.Term(hx.Ret.Results[len(hx.Ret.Results)-1]) != "daemon/gnet.ErrDisconnectInvalidMessageLength" || !m {
							good = false
						}
					}
					r.Check("C22-R1", dd+": invalid-length disconnect (in helper "+FnName(h)+") only for length < 4 or length > max", r.P.Pos(ex.Pos), good && n > 0, "")
					continue
				}
			}
			_, isRead := matchAny([]string{"bytes.Buffer.Read($0, *)#1"}, []string{errT})
			r.Check("C22-R1", dd+": other error return "+trunc(errT, 60), r.P.Pos(ex.Pos), isRead, "only the Read error may be propagated")
		}
	}
	// R2
	id := "lookup(daemon/gnet.MessageIDReverseMap[local:[4]byte])"
	des := "daemon/gnet.deserializeMessage($1[4:], reflect.New(" + id + "#0))"
	reqs := []Req{
		req("at least a message id", "4 <= len($1)"),
		req("message id registered", id+"#1"),
		req("registered type implements Message", "reflect.Value.Interface(reflect.New("+id+"#0)).(daemon/gnet.Message)#1"),
		req("body decodes", "ok("+des+")"),
		req("no trailing bytes", des+"#0 == uint64(len($1[4:]))"),
	}
	r.RequireOnSuccess("C22-R2", "daemon/gnet.convertToMessage", reqs...)
	r.ExhaustiveRejects("C22-R2", "daemon/gnet.convertToMessage", append(reqs, req("debug printing", "$2", "!$2"))...)
	r.RejectsAre("C22-R2", "daemon/gnet.convertToMessage", 4, "daemon/gnet.ErrDisconnectTruncatedMessageID", "daemon/gnet.ErrDisconnectUnknownMessage", "daemon/gnet.ErrDisconnectMalformedMessage", "daemon/gnet.ErrDisconnectMessageDecodeUnderflow")
	if f := r.fn("C22-R2", "daemon/gnet.convertToMessage"); f != nil {
		ok := false
		for _, cs := range r.CallSites(f, "copy") {
			if r.argTerm(cs, 0) == "local:[4]byte[:]" && r.argTerm(cs, 1) == "$1[:4]" {
				ok = true
			}
		}
		r.Check("C22-R2", "convertToMessage: the looked-up id is the first 4 bytes of the frame", r.P.Pos(f.Pos()), ok, "")
	}
	// deserializeMessage: deferred recover, tail call of Decode on the body
	if f := r.fn("C22-R2", "daemon/gnet.deserializeMessage"); f != nil {
		hasRecover := false
		for _, b := range f.Blocks {
			for _, in := range b.Instrs {
				if d, ok := in.(*ssa.Defer); ok && b == f.Blocks[0] {
					if mc, ok := d.Call.Value.(*ssa.MakeClosure); ok {
						for _, cb := range mc.Fn.(*ssa.Function).Blocks {
							for _, ci := range cb.Instrs {
								if c, ok := ci.(*ssa.Call); ok && calleeName(&c.Call) == "recover" {
									hasRecover = true
								}
							}
						}
					}
				}
			}
		}
		r.Check("C22-R2", "deserializeMessage: a deferred recover() installed in the entry block covers Decode", r.P.Pos(f.Pos()), hasRecover, "a panicking decoder must become a malformed-message disconnect, not a node crash")
	}
	// R3 registry
	dpk := r.P.ByPath[pkgPath("daemon")]
	var prefixes []string
	var types_ []types.Type
	if dpk != nil {
		for _, f := range dpk.Syntax {
			ast.Inspect(f, func(n ast.Node) bool {
				fd, ok := n.(*ast.FuncDecl)
				if !ok || fd.Name.Name != "getMessageConfigs" || fd.Body == nil {
					return true
				}
				ast.Inspect(fd.Body, func(n ast.Node) bool {
					c, ok := n.(*ast.CallExpr)
					if !ok || len(c.Args) != 2 {
						return true
					}
					if id, ok := c.Fun.(*ast.Ident); !ok || id.Name != "NewMessageConfig" {
						return true
					}
					if tv, ok := dpk.TypesInfo.Types[c.Args[0]]; ok && tv.Value != nil {
						prefixes = append(prefixes, constant.StringVal(tv.Value))
						types_ = append(types_, dpk.TypesInfo.TypeOf(c.Args[1]))
					}
					return true
				})
				return false
			})
		}
	}
	r.Check("C22-R3", "12 message types registered", "", len(prefixes) == 12, strings.Join(prefixes, ","))
	seen := map[string]bool{}
	gm, _ := r.P.Pkg("daemon/gnet").Scope().Lookup("Message").(*types.TypeName)
	am, _ := r.P.Pkg("daemon").Scope().Lookup("asyncMessage").(*types.TypeName)
	for i, p := range prefixes {
		r.Check("C22-R3", "prefix "+p+" is 4 bytes and unique", "", len(p) == 4 && !seen[p], "")
		seen[p] = true
		t := types_[i]
		pt := types.NewPointer(t)
		name := typeShort(t)
		if gm != nil {
			r.Check("C22-R3", name+" implements gnet.Message", "", types.Implements(pt, gm.Type().Underlying().(*types.Interface)), "")
		}
		if am != nil {
			isAsync := types.Implements(pt, am.Type().Underlying().(*types.Interface))
			r.Check("C22-R3", name+" is dispatched asynchronously (has process) or is PongMessage", "", isAsync || name == "daemon.PongMessage", "")
		}
		// Decode uses the generated codec of the same type, or returns (0, nil) for body-less messages
		short := strings.TrimPrefix(name, "daemon.")
		if df := r.P.Fn("daemon." + short + ".Decode"); df != nil {
			dff := r.P.Facts(df)
			okd := false
			desc := ""
			for _, b := range df.Blocks {
				if ret, ok := b.Instrs[len(b.Instrs)-1].(*ssa.Return); ok && len(ret.Results) == 2 {
					t0, t1 := dff.Term(ret.Results[0]), dff.Term(ret.Results[1])
					desc = t0 + " , " + t1
					if t0 == "daemon.decode"+short+"($1, $0)#0" && t1 == "daemon.decode"+short+"($1, $0)#1" {
						okd = true
					}
					if t0 == "0" && t1 == "nil" {
						st, _ := t.Underlying().(*types.Struct)
						encoded := 0
						for j := 0; st != nil && j < st.NumFields(); j++ {
							if st.Field(j).Exported() && !strings.Contains(st.Tag(j), `enc:"-"`) {
								encoded++
							}
						}
						okd = encoded == 0
					}
				}
			}
			r.Check("C22-R3", name+".Decode uses its generated decoder (or the type has no encoded field)", r.P.Pos(df.Pos()), okd, desc)
		} else {
			r.Fail("C22-R3", name+".Decode", "", "anchor-unresolved")
		}
	}
	// R4
	boundObligations(r, "C22-R4", dd, "daemon/gnet.convertToMessage")
	// what runs on the daemon event loop with the decoded message (outside deserializeMessage's recover):
	// every slice/index expression of the message handlers is in bounds
	var handlers []string
	for _, f := range r.P.ModFns {
		n := FnName(f)
		if strings.HasPrefix(n, "daemon.") && f.Parent() == nil && f.Signature.Recv() != nil && (f.Name() == "process" || f.Name() == "Verify" && strings.Contains(n, "IntroductionMessage")) {
			handlers = append(handlers, n)
		}
	}
	sort.Strings(handlers)
	boundObligations(r, "C22-R4", append(handlers, "daemon.Daemon.onMessageEvent")...)
	r.Check("C22-R4", "message handlers scanned for bounds", "", len(handlers) >= 12, fmt.Sprint(len(handlers)))
	// the bytes just appended to the connection buffer are decoded (and complete frames delivered) before the
	// loop reads again: delivery does not depend on how the stream was split into reads
	r.RequireBetween("C22-R1", "daemon/gnet.ConnectionPool.readLoop", "bytes.Buffer.Write", "daemon/gnet.decodeData", "daemon/gnet.readData", "every successful append to the connection buffer is followed by decodeData before the next read")
	if fn := r.fn("C22-R1", "daemon/gnet.ConnectionPool.readLoop"); fn != nil {
		ff := r.P.Facts(fn)
		// every decoded frame is offered to the message channel: the delivery loop ranges over all of decodeData's result
		n := 0
		for _, b := range fn.Blocks {
			for _, in := range b.Instrs {
				if sel, ok := in.(*ssa.Select); ok {
					for _, st := range sel.States {
						if st.Dir == types.SendOnly {
							n++
							lp := ff.innermost[b]
							r.Check("C22-R1", "daemon/gnet.ConnectionPool.readLoop: every frame returned by decodeData is offered to the message channel, in order", r.P.Pos(sel.Pos()),
								lp != nil && glob("* < len(daemon/gnet.decodeData(*)#0)", ff.loopSpace(lp)) && len(ff.loopSpace(lp)) > 0 && glob("daemon/gnet.decodeData(*)#0["+ff.loopSpace(lp)[:1]+"]", ff.Term(st.Send)) && ff.everyIteration(b, lp), ff.Term(st.Send))
						}
					}
				}
			}
		}
		r.Check("C22-R1", "daemon/gnet.ConnectionPool.readLoop: delivery sites", "", n == 1, "")
	}

}
