package main

import "fmt"

func init() { props["C09"] = checkC09 }

// documented well-formedness atoms of coin.Transaction.verify (shared with C10/C01)
func txnVerifyReqs() []Req {
	return []Req{
		req("at least one input", "len($0.In) != 0"),
		req("at least one output", "len($0.Out) != 0"),
		req("one signature per input", "len($0.Sigs) == len($0.In)"),
		req("no repeated input (set of all In[i] has len(In) elements)", "len(set{$0.In[i]}) == len($0.In)"),
		req("type zero", "$0.Type == 0"),
		req("no zero-coin output", "forall(i < len($0.Out)): $0.Out[i].Coins != 0"),
		req("output coins do not overflow (checked fold)", "forall(i < len($0.Out)): ok(util/mathutil.AddUint64(fold[acc=0; util/mathutil.AddUint64(acc, $0.Out[i].Coins)#0], $0.Out[i].Coins))"),
		req("size and hash computable", "ok(coin.Transaction.SizeHash($0))"),
		req("length field equals encoded size", "$0.Length == coin.Transaction.SizeHash($0)#0"),
		req("no two identical outputs (set of UxBody hashes over all four body fields)", "len(set{coin.UxBody.Hash({Address: $0.Out[i].Address, Coins: $0.Out[i].Coins, Hours: $0.Out[i].Hours, SrcTransaction: coin.Transaction.SizeHash($0)#1})}) == len($0.Out)"),
		req("inner hash computable", "ok(coin.Transaction.hashInner($0))"),
		req("inner hash correct", "coin.Transaction.hashInner($0)#0 == $0.InnerHash"),
		req("every non-null signature is valid and recoverable over AddSHA256(InnerHash, In[i])", "forall(i < len($0.Sigs)): !cipher.Sig.Null($0.Sigs[i]) => ok(cipher.VerifySignatureRecoverPubKey($0.Sigs[i], cipher.AddSHA256($0.InnerHash, $0.In[i])))"),
		req("signed check: no null signature", "forall(i < len($0.Sigs)): cipher.Sig.Null($0.Sigs[i]) => !$1"),
		req("unsigned check: at least one null signature", "when: !$1 => coin.Transaction.hasNullSignature($0)"),
	}
}

func checkC09(r *Run) {
	r.Explain = "(R4+) the zero-value predicates the rule set leans on (Sig.Null, SHA256.Null, Address.Null) compare the whole value with the zero value; (R5) the generated encoder/decoder of coin.Transaction match the schema derived from the type and its tags (so decoding accepts exactly the byte strings encoding can produce, with the same length limits); C09: decides, on every path of coin.Transaction.verify, (R1) that each success return is reachable only after the 15 documented well-formedness conditions were established (guard facts over SSA dominators, loop-quantified facts with their iteration space), (R2) that the function enforces no condition outside the documented set (exhaustive reject mapping), (R3) that the exported entry points are tail calls of verify with the right signed flag and that decoding goes through the exact (whole-buffer) generated decoder whose schema is validated under C21."
	r.NotDec = "signature mathematics (C14); that SizeHash/hashInner compute the right bytes (C21 covers the codecs); values of concrete transactions"
	ruleNullPredicates(r, "C09-R4", "cipher.Sig.Null", "cipher.SHA256.Null", "cipher.Address.Null")
	reqs := txnVerifyReqs()
	r.RequireOnSuccess("C09-R1", "coin.Transaction.verify", reqs...)
	r.Min("C09-R1", 15)
	allowed := append([]Req{}, reqs...)
	allowed = append(allowed,
		req("codec bound: at most 65535 signatures/inputs", "len($0.Sigs) <= 65535"),
		req("codec bound: at most 65535 outputs", "len($0.Out) <= 65535"),
		// the two halves of loop-carried rules appear as plain (unquantified) conditions on the branch itself
		req("no zero-coin output", "$0.Out[i].Coins != 0"),
		req("output coins do not overflow", "ok(util/mathutil.AddUint64(fold[acc=0; util/mathutil.AddUint64(acc, $0.Out[i].Coins)#0], $0.Out[i].Coins))"),
		req("signature valid", "ok(cipher.VerifySignatureRecoverPubKey($0.Sigs[i], cipher.AddSHA256($0.InnerHash, $0.In[i])))"),
		req("signed check: no null signature", "!$1"),
		req("unsigned check: null signature present", "coin.Transaction.hasNullSignature($0)"),
	)
	r.ExhaustiveRejects("C09-R2", "coin.Transaction.verify", allowed...)
	r.Min("C09-R2", 16)

	// R3 entry points
	r.RequireOnSuccess("C09-R3", "coin.Transaction.Verify", req("Verify = verify(signed=true)", "ok(coin.Transaction.verify($0, true))"))
	r.RequireOnSuccess("C09-R3", "coin.Transaction.VerifyUnsigned", req("VerifyUnsigned = verify(signed=false)", "ok(coin.Transaction.verify($0, false))"))
	r.RequireOnSuccess("C09-R3", "coin.DeserializeTransaction", req("decodes with the exact (whole buffer) generated decoder", "ok(coin.decodeTransactionExact($0, *))"))
	r.RequireOnSuccess("C09-R3", "coin.decodeTransactionExact",
		req("decoder succeeded", "ok(coin.decodeTransaction(*"),
		req("whole buffer consumed", "uint64(len($0)) == coin.decodeTransaction(*)#0", "coin.decodeTransaction(*)#0 == uint64(len($0))"))
	// hasNullSignature really scans Sigs
	r.RequireOnSuccess("C09-R3", "coin.Transaction.hasNullSignature")
	checkPure(r, "C09-R4", "coin.Transaction.verify")
	// every signature valid and recoverable: the recovery primitive's own range tests
	ruleRecoverRange(r, "C09-R6")
	ruleExactDecoders(r, "C09-R3", "coin.")
	// R5: the transaction's generated codec is the reference codec of its type (decode accepts exactly what
	// encode can produce: same field order, same length limits) — the rule set of C21 on this one type
	n, _, _ := codecObligations(r, "C09-R5", func(t string) bool { return t == "coin.Transaction" })
	nParts, _, _ := codecObligations(r, "C09-R5", func(t string) bool { return t == "coin.TransactionInputs" || t == "coin.TransactionOutputs" })
	r.Check("C09-R5", "the generated codecs of the two parts hashed into the inner hash were found and validated", "", nParts == 2, fmt.Sprint(nParts))
	r.Check("C09-R5", "the generated codec of coin.Transaction was found and validated against its type", "", n == 1, "")
}
