package main

import (
	"fmt"
	"go/types"
	"sort"
	"strings"

	"golang.org/x/tools/go/ssa"
)

func init() { props["C24"] = checkC24 }

func checkC24(r *Run) {
	r.Explain = "(R1++) all-or-nothing: in pending/connected/introduced/remove/updateMirror no error return is reachable after a bookkeeping map was written; (R1+) the listen-address index is a multi-map: insertions append to the list stored under the key, never replace it; C24: (R1) the five bookkeeping maps of daemon.Connections are written only by pending / connected / introduced(+updateMirror) / remove, and every insertion has a matching deletion in remove under the same condition: the IP+mirror entry is inserted only on the introduced transition and deleted only for an introduced connection; an incoming listen address is indexed only when non-empty and removed when non-empty; per-IP counts are incremented for every new connection and their key deleted when the count returns to zero; gnet ids and the connection record are deleted unconditionally; (R2) a connection becomes introduced only from the connected state with the matching gnet id after the IP+mirror pair was found free (key-presence test), and connected() refuses connected/introduced records; (R3) every access to the maps happens with the Connections mutex held."
	r.NotDec = "equality of the maps with the live set for concrete event sequences"
	ruleNoCrossedConfig(r, "C24-R0")
	maps := []string{"conns", "ipCounts", "gnetIDs", "mirrors", "listenAddrs"}
	allowedWriters := map[string]bool{"daemon.Connections.pending": true, "daemon.Connections.connected": true, "daemon.Connections.introduced": true, "daemon.Connections.remove": true, "daemon.Connections.updateMirror": true, "daemon.NewConnections": true}
	type site struct {
		fn    string
		kind  string
		m     string
		facts []string
		pos   string
		desc  string
		key   string
		val   string
		in    ssa.Instruction
	}
	var sites []site
	for _, fn := range r.P.ModFns {
		if !strings.HasPrefix(FnName(fn), "daemon.") {
			continue
		}
		ff := r.P.Facts(fn)
		for _, b := range fn.Blocks {
			for _, in := range b.Instrs {
				var m ssa.Value
				kind, key, val := "", "", ""
				switch x := in.(type) {
				case *ssa.MapUpdate:
					m, kind = x.Map, "insert"
					key, val = ff.Term(x.Key), ff.Term(x.Value)
				case *ssa.Call:
					if calleeName(&x.Call) == "delete" {
						m, kind = x.Call.Args[0], "delete"
					}
				}
				if m == nil {
					continue
				}
				t := ff.Term(m)
				for _, name := range maps {
					isOuter := t == "$0."+name
					isInner := name == "mirrors" && (strings.Contains(t, "$0.mirrors[") || t == "φ($0.mirrors[$2]|map{})")
					if !isOuter && !isInner {
						continue
					}
					owner, fs := r.P.attribute(fn, b)
					sites = append(sites, site{FnName(owner), kind, name, fs, r.P.Pos(in.Pos()), t, key, val, in})
				}
			}
		}
	}
	sort.Slice(sites, func(i, j int) bool { return sites[i].pos < sites[j].pos })
	r.Units["map write sites"] = len(sites)
	for _, s := range sites {
		r.Check("C24-R1", s.fn+" "+s.kind+"s "+s.m+" ("+s.desc+")", s.pos, allowedWriters[s.fn], "unexpected writer of connection bookkeeping")
	}
	r.Min("C24-R1", 12)
	// the records themselves are part of the bookkeeping (remove and introduced act on Outgoing, State, ListenPort,
	// Mirror, gnetID): a live record is written only by the Connections methods; everyone else works on copies
	nRec := 0
	for _, fn := range r.P.ModFns {
		name := FnName(fn)
		if !strings.HasPrefix(name, "daemon.") {
			continue
		}
		for _, b := range fn.Blocks {
			for _, in := range b.Instrs {
				st, ok := in.(*ssa.Store)
				if !ok {
					continue
				}
				// walk to the root of the address
				root := st.Addr
				isRec := false
				for d := 0; d < 10; d++ {
					fa, ok := root.(*ssa.FieldAddr)
					if !ok {
						break
					}
					ts := types.TypeString(derefType(fa.X.Type()), nil)
					if strings.HasSuffix(ts, "/daemon.connection") || strings.HasSuffix(ts, "/daemon.ConnectionDetails") {
						isRec = true
					}
					root = fa.X
				}
				if !isRec {
					continue
				}
				if _, local := root.(*ssa.Alloc); local {
					continue // a copy or a record under construction
				}
				nRec++
				owner, _ := r.P.attribute(fn, b)
				r.Check("C24-R1", name+": a live connection record is written only by the Connections methods", r.P.Pos(in.Pos()), allowedWriters[FnName(owner)] || strings.HasPrefix(name, "daemon.Connections."),
					"field of a record held in Connections.conns is written outside the bookkeeping methods: the maps are not adjusted with it")
			}
		}
	}
	r.Check("C24-R1", "writes to live connection records found", "", nRec >= 8, fmt.Sprint(nRec))
	has := func(s site, pats ...string) bool { _, m := matchAny(pats, s.facts); return m }
	conn := "$0.conns[$1]"
	for _, s := range sites {
		switch {
		case s.fn == "daemon.Connections.remove" && s.kind == "delete" && s.m == "mirrors":
			r.Check("C24-R1", "remove deletes the IP+mirror entry only for an introduced connection ("+s.desc+")", s.pos,
				has(s, "daemon.ConnectionDetails.HasIntroduced("+conn+".ConnectionDetails)"), "a never-introduced connection owns no IP+mirror entry; deleting it erases another connection's entry")
		case s.fn == "daemon.Connections.remove" && s.kind == "delete" && s.m == "listenAddrs":
			r.Check("C24-R1", "remove cleans the listen-address index only for a non-empty listen address", s.pos, has(s, `daemon.connection.ListenAddr(`+conn+`) != ""`), "")
		case s.fn == "daemon.Connections.remove" && s.kind == "delete" && s.m == "ipCounts":
			// two equivalent forms: decrement, then delete when the stored count is 0; or delete when the count
			// is 1 and decrement otherwise
			cnt := "$0.ipCounts[util/iputil.SplitAddr($1)#0]"
			var dec *site
			nDec := 0
			for i := range sites {
				if t := &sites[i]; t.fn == s.fn && t.kind == "insert" && t.m == "ipCounts" {
					dec = t
					nDec++
				}
			}
			okForm := false
			detail := "no decrement of the per-IP count in remove"
			if nDec == 1 {
				decOK := dec.val == "("+cnt+" - 1)" && has(*dec, "0 < "+cnt)
				after := dec.in.Block() == s.in.Block() || dec.in.Block().Dominates(s.in.Block())
				switch {
				case !decOK:
					detail = "the count is not decremented by one under count > 0: stores " + dec.val
				case after:
					okForm = has(s, cnt+" == 0")
					detail = "decrement precedes the delete, which therefore needs the guard count == 0"
				default:
					okForm = has(s, cnt+" == 1") && has(s, "0 < "+cnt) && has(*dec, cnt+" != 1")
					detail = "the delete replaces the decrement, which therefore needs the guards count == 1 (delete) and count != 1 (decrement)"
				}
			}
			r.Check("C24-R1", "remove decrements the per-IP count and deletes the key exactly when it returned to zero", s.pos, okForm, detail)
		case s.fn == "daemon.Connections.introduced" && s.kind == "insert" && s.m == "listenAddrs":
			r.Check("C24-R1", "introduced indexes the listen address only for incoming connections", s.pos, has(s, "!"+conn+".ConnectionDetails.Outgoing"), "")
			r.Check("C24-R1", "introduced indexes the listen address only when it is non-empty (symmetric with remove)", s.pos, has(s, `daemon.connection.ListenAddr(`+conn+`) != ""`), "an empty listen address would never be removed")
		case s.fn == "daemon.Connections.updateMirror" && s.kind == "insert" && s.m == "mirrors" && strings.HasPrefix(s.desc, "φ("):
			r.Check("C24-R1", "updateMirror inserts the IP only when it is not yet registered for that mirror (key-presence test)", s.pos, has(s, "!lookup(φ($0.mirrors[$2]|map{})[$1])#1"), "")
		}
	}
	// the listen-address index is a multi-map: an insertion extends the list already stored under the key with the
	// connection's own address, it never replaces the list (other live connections may be registered there)
	nLA := 0
	for _, s := range sites {
		if s.kind != "insert" || s.m != "listenAddrs" || s.fn == "daemon.Connections.remove" {
			continue
		}
		nLA++
		r.Check("C24-R1", s.fn+": the listen-address entry is extended (append to the stored list), never overwritten", s.pos,
			glob("append($0.listenAddrs["+s.key+"], [*])", s.val), "stores "+trunc(s.val, 160)+" under "+s.key)
	}
	r.Check("C24-R1", "listen-address insertion sites", "", nLA == 2, "")
	for _, s := range sites {
		if s.kind == "insert" && s.m == "listenAddrs" && s.fn == "daemon.Connections.remove" {
			r.Check("C24-R1", "remove writes back the stored list minus the removed connection", s.pos, strings.Contains(s.val, "$0.listenAddrs["+s.key+"]"), trunc(s.val, 200))
		}
	}
	// all-or-nothing: once a bookkeeping map was written the operation can no longer fail (a rejected event
	// leaves no trace in any map)
	for _, fnName := range []string{"daemon.Connections.pending", "daemon.Connections.connected", "daemon.Connections.introduced", "daemon.Connections.remove", "daemon.Connections.updateMirror"} {
		wf := r.fn("C24-R1", fnName)
		if wf == nil {
			continue
		}
		wff := r.P.Facts(wf)
		rejectBlocks := map[*ssa.BasicBlock]bool{}
		for _, e := range wff.Exits() {
			if e.Kind == ExitReject && e.Ret != nil {
				rejectBlocks[e.Ret.Block()] = true
			}
		}
		nW := 0
		for _, b := range wf.Blocks {
			for _, in := range b.Instrs {
				isWrite := false
				var m ssa.Value
				switch x := in.(type) {
				case *ssa.MapUpdate:
					isWrite, m = true, x.Map
				case *ssa.Call:
					if calleeName(&x.Call) == "delete" {
						isWrite, m = true, x.Call.Args[0]
					}
				}
				if !isWrite {
					continue
				}
				t := wff.Term(m)
				own := false
				for _, name := range maps {
					if t == "$0."+name || name == "mirrors" && strings.Contains(t, "$0.mirrors") {
						own = true
					}
				}
				if !own {
					continue
				}
				nW++
				reach := wff.reachFrom(b, nil)
				bad := ""
				for rb := range rejectBlocks {
					if reach[rb] && rb != b {
						bad = r.P.Pos(rb.Instrs[len(rb.Instrs)-1].Pos())
					}
				}
				r.Check("C24-R1", fnName+": no error return after the write to "+t, r.P.Pos(in.Pos()), bad == "", "the operation can still fail at "+bad+" after this write: a rejected event leaves the entry behind")
			}
		}
		// writes made by a single-use helper count as writes at its call site
		for _, h := range r.P.singleUseCallees(wf, 2) {
			site, caller := r.P.onlyCallSite(h)
			if site == nil || caller != wf {
				continue
			}
			hf := r.P.Facts(h)
			for _, hb := range h.Blocks {
				for _, in := range hb.Instrs {
					var m ssa.Value
					switch x := in.(type) {
					case *ssa.MapUpdate:
						m = x.Map
					case *ssa.Call:
						if calleeName(&x.Call) == "delete" {
							m = x.Call.Args[0]
						}
					}
					if m == nil {
						continue
					}
					t := hf.Term(m)
					own := false
					for _, name := range maps {
						if t == "$0."+name || name == "mirrors" && strings.Contains(t, "$0.mirrors") {
							own = true
						}
					}
					if !own {
						continue
					}
					nW++
					reach := wff.reachFrom(site.Block(), nil)
					bad := ""
					for rb := range rejectBlocks {
						if reach[rb] && rb != site.Block() {
							bad = r.P.Pos(rb.Instrs[len(rb.Instrs)-1].Pos())
						}
					}
					r.Check("C24-R1", fnName+": no error return after the write to "+t+" (in "+FnName(h)+")", r.P.Pos(in.Pos()), bad == "", "the operation can still fail at "+bad+" after this write")
				}
			}
		}
		if fnName != "daemon.Connections.updateMirror" {
			r.Check("C24-R1", fnName+": bookkeeping writes found", "", nW >= 1, "")
		}
	}
	// every kind of insertion has its deletion in remove
	want := map[string]bool{}
	for _, s := range sites {
		if s.fn == "daemon.Connections.remove" && s.kind == "delete" {
			want[s.m] = true
		}
	}
	for _, m := range maps {
		r.Check("C24-R1", "remove deletes from "+m, "", want[m], "a map that is only ever inserted into can never become empty again")
	}
	r.checkCallers("C24-R1", "daemon.Connections.updateMirror", "daemon.Connections.introduced")
	r.checkCallers("C24-R1", "daemon.Connections.canUpdateMirror", "daemon.Connections.introduced")

	// R2
	r.RequireOnSuccess("C24-R2", "daemon.Connections.introduced",
		req("valid gnet id", "$2 != 0"),
		req("record exists", conn+" != nil"),
		req("only from the connected state", conn+`.ConnectionDetails.State == "connected"`),
		req("gnet id matches the record", "when: $2 == "+conn+".gnetID"),
		req("IP+mirror pair is free", "ok(daemon.Connections.canUpdateMirror($0, util/iputil.SplitAddr($1)#0, $3.Mirror))"),
		req("IP+mirror pair registered", "ok(daemon.Connections.updateMirror($0, util/iputil.SplitAddr($1)#0, $3.Mirror, *))"))
	r.RequireAtStore("C24-R2", "daemon.Connections.introduced", conn+`.ConnectionDetails.State := "introduced"`, 1,
		req("state set after the mirror registration", "ok(daemon.Connections.updateMirror(*))"))
	r.RequireOnSuccess("C24-R2", "daemon.Connections.canUpdateMirror")
	if fn := r.fn("C24-R2", "daemon.Connections.canUpdateMirror"); fn != nil {
		ff := r.P.Facts(fn)
		for _, ex := range ff.Exits() {
			var fs []string
			for _, a := range ff.Must(ex.Block) {
				fs = append(fs, a.S)
			}
			switch ex.Kind {
			case ExitSuccess:
				_, m := matchAny([]string{"$0.mirrors[$2] == nil", "!lookup($0.mirrors[$2][$1])#1"}, fs)
				r.Check("C24-R2", "canUpdateMirror: free only if no map for the mirror or the IP key is absent", r.P.Pos(ex.Pos), m, strings.Join(fs, ";"))
			case ExitReject:
				_, m := matchAny([]string{"lookup($0.mirrors[$2][$1])#1"}, fs)
				r.Check("C24-R2", "canUpdateMirror: refused exactly when the IP key is present for the mirror", r.P.Pos(ex.Pos), m, strings.Join(fs, ";"))
			}
		}
	}
	r.RequireOnSuccess("C24-R2", "daemon.Connections.connected",
		req("valid gnet id", "$2 != 0"),
		req("an existing record must be pending", "when: "+conn+" != nil => "+conn+`.ConnectionDetails.State == "pending"`))
	r.RequireAtStore("C24-R2", "daemon.Connections.connected", "$0.ipCounts[*] := *", 1, req("per-IP count incremented only for a new record", conn+" == nil"))
	r.RequireStore("C24-R2", "daemon.Connections.connected", "gnet id indexed to the address", "$0.gnetIDs[$2] := $1")
	// a failed connection attempt removes at most a pending record: the failure handler passes connection id 0,
	// which only a record that never connected carries
	if fn := r.fn("C24-R2", "daemon.Daemon.onConnectFailure"); fn != nil {
		sites := r.CallSites(fn, "daemon.Connections.remove")
		r.Check("C24-R2", "daemon.Daemon.onConnectFailure removes the record of the failed attempt", r.P.Pos(fn.Pos()), len(sites) == 1, fmt.Sprint(len(sites)))
		for _, cs := range sites {
			r.Check("C24-R2", "daemon.Daemon.onConnectFailure: the failure event removes only a record with connection id 0 (pending)", r.P.Pos(cs.Pos()), r.argTerm(cs, 2) == "0" && r.argTerm(cs, 1) == "$1.Addr", "remove("+r.argTerm(cs, 1)+", "+r.argTerm(cs, 2)+")")
		}
	}
	// a removal names the connection it means: the record is dropped only when its connection id is the caller's
	// (0 for a connection that never got one), whatever the event that triggers it
	r.RequireOnSuccess("C24-R2", "daemon.Connections.remove",
		req("the address parses", "ok(util/iputil.SplitAddr($1))"),
		req("the record's connection id equals the caller's", conn+".gnetID == $2"))

	// R3 locks
	res := r.P.lockDiscipline("daemon", "Connections", maps, "sync.Mutex.Lock", "sync.Mutex.Unlock")
	sort.Slice(res, func(i, j int) bool { return FnName(res[i].Fn) < FnName(res[j].Fn) })
	for _, lr := range res {
		r.Check("C24-R3", FnName(lr.Fn)+" accesses Connections."+lr.Field+" under the mutex", r.P.Pos(lr.Pos), lr.OK, lr.Why)
	}
	r.Min("C24-R3", 12)
}
