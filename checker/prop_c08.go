package main

import (
	"fmt"
	"strings"

	"golang.org/x/tools/go/ssa"
)

func init() { props["C08"] = checkC08 }

func checkC08(r *Run) {
	r.Explain = "C08: (R1) the integrity walk terminates on every path: each goroutine counted by a WaitGroup calls Done on all its exits and the channel the verification workers range over is closed on all exits of its producer; (R2) every database mutation is inside one dbutil.DB.Update closure per logical operation: closures passed to Update/View never start a nested Update/View or a goroutine (directly or through module callees), every bucket-writing accessor takes the *dbutil.Tx it writes with, and block execution, pool removal and history update use the same tx; (R3) no error of a db accessor is dropped in the visor packages (a swallowed error would let bolt commit a partial state); (R4) the corrupt-database classifier resets the db only for the documented corruption errors and returns the db unchanged only for a nil error."
	r.NotDec = "crash states inside a bolt commit (bolt's write-prefix atomicity is trusted); time bounds other than termination of the walk"
	// an empty chain (buckets created, genesis not yet committed) verifies trivially: the walk returns nil when
	// the chain length is 0 and fails before iterating only if reading the length fails
	for _, f := range r.P.ModFns {
		if !strings.HasPrefix(FnName(f), "visor.Blockchain.WalkChain$") || len(r.CallSites(f, "iface:visor.chainStore.ForEachBlock")) == 0 {
			continue
		}
		ff := r.P.Facts(f)
		fe := r.CallSites(f, "iface:visor.chainStore.ForEachBlock")[0]
		emptyOK, early := false, 0
		for _, e := range ff.Exits() {
			if e.Ret == nil || fe.Block().Dominates(e.Ret.Block()) {
				continue
			}
			switch e.Kind {
			case ExitSuccess:
				for _, a := range ff.Must(e.Block) {
					if glob("visor.Blockchain.Len(*)#0 == 0", a.S) {
						emptyOK = true
					}
				}
			case ExitReject, ExitTail, ExitUnknown:
				early++
				r.Check("C08-R4", FnName(f)+": before iterating, the walk fails only when the chain length cannot be read", r.P.Pos(e.Ret.Pos()), glob("visor.Blockchain.Len(*)#1", e.Desc), "fails with "+trunc(e.Desc, 100)+": a database holding no block yet (crash before genesis) would be refused on restart")
			}
		}
		r.Check("C08-R4", FnName(f)+": an empty chain is walked successfully (returns nil when the length is 0)", r.P.Pos(f.Pos()), emptyOK, "")
	}
	// the forced verification fails only for the reviewed reasons: the bucket probe, opening the chain, the walk
	// (signatures) and the history check; anything else it reads must not turn a valid (possibly still empty)
	// database into a start-up failure
	r.RejectsAre("C08-R4", "visor.CheckDatabase", 3,
		"visor/dbutil.DB.View($0, *, closure(*))", "visor.NewBlockchain($0, *)#1", "visor.Blockchain.WalkChain(visor.NewBlockchain($0, *)#0, *", "local:error")
	if cd := r.P.Fn("visor.CheckDatabase"); cd != nil {
		for _, f := range r.P.ModFns {
			if f.Parent() != cd {
				continue
			}
			for _, e := range r.P.Facts(f).Exits() {
				if e.Kind == ExitSuccess || e.Kind == ExitPanic {
					continue
				}
				r.Check("C08-R4", FnName(f)+": the closures of CheckDatabase fail only on a bad block signature", r.P.Pos(e.Pos), glob("visor.Blockchain.VerifySignature(*", e.Desc), "fails with "+trunc(e.Desc, 120))
			}
		}
	}
	// start-up is idempotent: the genesis block is created exactly when the chain does not yet hold one (a restart
	// with a chain that holds only the genesis block must not try to create it again)
	gg := "iface:visor.Blockchainer.GetGenesisBlock($0.blockchain, $1)"
	r.RequireAtCall("C08-R5", "visor.Visor.maybeCreateGenesisBlock", "visor.Visor.executeSignedBlock", 1,
		req("the chain was probed for its genesis block", "ok("+gg+")"), req("and holds none", gg+"#0 == nil"))
	r.RequireReturnAllPaths("C08-R5", "visor.Visor.maybeCreateGenesisBlock", 0, "nil", 1, req("nothing is created only when the genesis block exists", gg+"#0 != nil"))
	// R1
	if fn := r.fn("C08-R1", "visor.Blockchain.WalkChain"); fn != nil {
		res := r.P.goroutinePairing(fn)
		for _, pr := range res {
			r.Check("C08-R1", pr.Desc, r.P.Pos(pr.Pos), pr.OK, pr.Why)
		}
		r.Min("C08-R1", 4)
	}
	// R2a: closures passed to Update / View
	nUpd := 0
	for _, fn := range r.P.ModFns {
		for _, b := range fn.Blocks {
			for _, in := range b.Instrs {
				c, ok := in.(*ssa.Call)
				if !ok {
					continue
				}
				name := calleeName(&c.Call)
				if name != "visor/dbutil.DB.Update" && name != "visor/dbutil.DB.View" {
					continue
				}
				mc, ok := c.Call.Args[len(c.Call.Args)-1].(*ssa.MakeClosure)
				if !ok {
					// method value / function passed: resolve statically when possible
					continue
				}
				nUpd++
				cl := mc.Fn.(*ssa.Function)
				reach := reachableFrom(r.P.VTA(), []*ssa.Function{cl}, func(f *ssa.Function) bool { return !InModule(f) })
				badNested, badGo := "", ""
				for f := range reach {
					if !InModule(f) || f.Blocks == nil {
						continue
					}
					for _, fb := range f.Blocks {
						for _, fi := range fb.Instrs {
							switch x := fi.(type) {
							case *ssa.Call:
								n := calleeName(&x.Call)
								if (n == "visor/dbutil.DB.Update" || n == "visor/dbutil.DB.View") && !strings.HasPrefix(FnName(f), "visor/dbutil.") {
									badNested = pathTo(reach, f) + " calls " + n
								}
							case *ssa.Go:
								if strings.HasPrefix(FnName(f), "visor") || f == cl {
									badGo = pathTo(reach, f)
								}
							}
						}
					}
				}
				if badNested != "" {
					r.Check("C08-R2", FnName(cl)+": no nested db transaction inside a "+name+" closure", r.P.Pos(c.Pos()), false, "bolt deadlocks / splits the atomic unit: "+badNested)
				}
				if badGo != "" {
					r.Check("C08-R2", FnName(cl)+": no goroutine started inside a "+name+" closure", r.P.Pos(c.Pos()), false, "work escaping the transaction: "+badGo)
				}
			}
		}
	}
	r.Units["Update/View closures"] = nUpd
	r.Check("C08-R2", "db transaction closures start no nested transaction and no goroutine", "", nUpd >= 60, fmt.Sprintf("%d closures inspected", nUpd))
	// R2c: bucket writers take the tx
	for _, w := range r.P.BucketWrites() {
		has := takesTx(w.Fn.Signature)
		if w.Fn.Parent() != nil {
			has = has || takesTx(w.Fn.Signature) // closure of Update: its own parameter
		}
		r.Check("C08-R2", "bucket writer "+FnName(w.Fn)+" ("+w.Bucket+") writes through a *dbutil.Tx parameter", r.P.Pos(w.Site.Pos()), has, "")
	}
	// R2b: one tx for block, pool and history
	const ex = "visor.Visor.executeSignedBlockUnsafe"
	if fn := r.fn("C08-R2", ex); fn != nil {
		for _, cal := range []string{"iface:visor.Blockchainer.ExecuteBlock", "iface:visor.UnconfirmedTransactionPooler.RemoveTransactions", "iface:visor.Historyer.ParseBlock"} {
			sites := r.CallSites(fn, cal)
			ok := len(sites) == 1 && r.argTerm(sites[0], 0) == "$1"
			pos := ""
			if len(sites) > 0 {
				pos = r.P.Pos(sites[0].Pos())
			}
			r.Check("C08-R2", ex+": "+cal+" runs in the caller's transaction", pos, ok, "")
		}
	}
	for _, f := range []string{"visor.Visor.ExecuteSignedBlock", "visor.Visor.ExecuteSignedBlockUnsafe"} {
		if fn := r.fn("C08-R2", f); fn != nil {
			n := len(r.CallSites(fn, "visor/dbutil.DB.Update"))
			r.Check("C08-R2", f+": exactly one Update per block execution", r.P.Pos(fn.Pos()), n == 1, fmt.Sprint(n))
		}
	}
	// R3
	txErrorDiscipline(r, "C08-R3")
	// R4
	const rc = "visor.ResetCorruptDB"
	chk := "visor.CheckDatabase($0, $1, $2)"
	r.RequireReturnAllPaths("C08-R4", rc, 0, "$0", 1, req("the integrity check returned nil", chk+" == nil", "!"+chk+".(*)#1"))
	r.RequireReturnAllPaths("C08-R4", rc, 0, "visor.resetCorruptDB*($0)#0", 2,
		req("the error is one of the documented corruption classes",
			chk+" == cipher/encoder.ErrBufferUnderflow", chk+" == cipher/encoder.ErrMaxLenExceeded",
			chk+".(visor/blockdb.ErrMissingSignature)#1", chk+".(visor/historydb.ErrHistoryDBCorrupted)#1"))
	r.RequireReturnAllPaths("C08-R4", rc, 0, "nil", 1, req("any other error is returned to the caller unchanged", chk+" != nil"))
}
