package main

import (
	"fmt"
	"go/token"
	"go/types"
	"sort"

	"golang.org/x/tools/go/ssa"
)

// Nil contract (engine E8): functions that may return (nil, nil) — a nil pointer
// together with a nil error — and the call sites that dereference the result
// without a dominating nil test.

type nilSite struct {
	Guarded bool
	Fn      *ssa.Function
	Call    ssa.CallInstruction
	Callee  string
	Deref   ssa.Instruction
	Why     string
}

// mayReturnNilNil: result index k (pointer typed) can be nil while the error is nil.
func (p *Program) mayReturnNilNil(f *ssa.Function) (int, bool) {
	if v, ok := p.nilnil[f]; ok {
		return v, v >= 0
	}
	res := -1
	if p.nilnilBusy == nil {
		p.nilnilBusy = map[*ssa.Function]bool{}
	}
	sig := f.Signature
	n := sig.Results().Len()
	if f.Blocks != nil && n >= 2 && isErrorType(sig.Results().At(n-1).Type()) {
		for k := 0; k < n-1; k++ {
			if _, ok := sig.Results().At(k).Type().Underlying().(*types.Pointer); !ok {
				continue
			}
			for _, b := range f.Blocks {
				ret, ok := b.Instrs[len(b.Instrs)-1].(*ssa.Return)
				if !ok || b == f.Recover {
					continue
				}
				// tail call of another producer: return g(...) / v, err := g(...); return v, err
				if ex, ok := ret.Results[k].(*ssa.Extract); ok {
					if ee, ok := ret.Results[n-1].(*ssa.Extract); ok && ee.Tuple == ex.Tuple {
						if c, ok := ex.Tuple.(*ssa.Call); ok {
							cands := []*ssa.Function{}
							if g := c.Call.StaticCallee(); g != nil {
								cands = append(cands, g)
							} else if c.Call.IsInvoke() {
								if nd := p.CHA().Nodes[f]; nd != nil {
									for _, e := range nd.Out {
										if e.Site == ssa.CallInstruction(c) {
											cands = append(cands, e.Callee.Func)
										}
									}
								}
							}
							for _, g := range cands {
								if g == f {
									continue
								}
								if p.nilnilBusy[g] {
									continue
								}
								p.nilnilBusy[g] = true
								kk, ok := p.mayReturnNilNil(g)
								delete(p.nilnilBusy, g)
								if ok && kk == ex.Index {
									// propagated only if the error is not known non-nil... the pair is returned as is
									res = k
								}
							}
						}
					}
				}
				if nilPossible(ret.Results[k], 0) && nilPossible(ret.Results[n-1], 0) {
					// both constant nil on the same return (or φ alternatives thereof)
					if isNilConst(ret.Results[k]) && isNilConst(ret.Results[n-1]) {
						res = k
					} else if phiBothNil(ret.Results[k], ret.Results[n-1]) {
						res = k
					}
				}
			}
		}
	}
	if p.nilnil == nil {
		p.nilnil = map[*ssa.Function]int{}
	}
	p.nilnil[f] = res
	return res, res >= 0
}

func nilPossible(v ssa.Value, d int) bool {
	if isNilConst(v) {
		return true
	}
	if phi, ok := v.(*ssa.Phi); ok && d < 3 {
		for _, e := range phi.Edges {
			if nilPossible(e, d+1) {
				return true
			}
		}
	}
	return false
}

// phiBothNil: two φs of the same block with a common predecessor edge on which
// both are nil.
func phiBothNil(a, b ssa.Value) bool {
	pa, ok1 := a.(*ssa.Phi)
	pb, ok2 := b.(*ssa.Phi)
	if ok1 && ok2 && pa.Block() == pb.Block() {
		for i := range pa.Edges {
			if isNilConst(pa.Edges[i]) && isNilConst(pb.Edges[i]) {
				return true
			}
		}
	}
	if ok1 && isNilConst(b) {
		for _, e := range pa.Edges {
			if isNilConst(e) {
				return true
			}
		}
	}
	return false
}

// NilContractSites scans the module.
func (p *Program) NilContractSites() (sites []nilSite, nCallSites int, producers []string) {
	prodSet := map[string]bool{}
	for _, fn := range p.ModFns {
		ff := p.Facts(fn)
		for _, b := range fn.Blocks {
			for _, in := range b.Instrs {
				call, ok := in.(*ssa.Call)
				if !ok {
					continue
				}
				k := -1
				calleeDesc := ""
				if f := call.Call.StaticCallee(); f != nil {
					if kk, ok := p.mayReturnNilNil(f); ok {
						k, calleeDesc = kk, FnName(f)
					}
				} else if call.Call.IsInvoke() {
					if n := p.CHA().Nodes[fn]; n != nil {
						for _, e := range n.Out {
							if e.Site == ssa.CallInstruction(call) {
								if kk, ok := p.mayReturnNilNil(e.Callee.Func); ok {
									k, calleeDesc = kk, FnName(e.Callee.Func)+" (via "+calleeName(&call.Call)+")"
								}
							}
						}
					}
				}
				if k < 0 {
					continue
				}
				prodSet[calleeDesc] = true
				nCallSites++
				// the extracted pointer
				for _, rf := range *call.Referrers() {
					ex, ok := rf.(*ssa.Extract)
					if !ok || ex.Index != k {
						continue
					}
					for _, use := range derefUses(ex, 0) {
						if ff.nonNilAt(ex, use.Block()) {
							sites = append(sites, nilSite{Guarded: true, Fn: fn, Call: call, Callee: calleeDesc, Deref: use, Why: "dominated by a nil test"})
							continue
						}
						if f := call.Call.StaticCallee(); f != nil && p.nilOnlyForNilParam(f, call) {
							sites = append(sites, nilSite{Guarded: true, Fn: fn, Call: call, Callee: calleeDesc, Deref: use, Why: "(nil, nil) only for a nil argument; the argument here is an address"})
							continue
						}
						sites = append(sites, nilSite{Fn: fn, Call: call, Callee: calleeDesc, Deref: use, Why: "result of " + calleeDesc + " may be nil with a nil error; dereferenced without a dominating nil test"})
					}
				}
			}
		}
	}
	for s := range prodSet {
		producers = append(producers, s)
	}
	sort.Strings(producers)
	sort.Slice(sites, func(i, j int) bool { return sites[i].Deref.Pos() < sites[j].Deref.Pos() })
	return
}

// derefUses: instructions that dereference pointer v.
func derefUses(v ssa.Value, d int) []ssa.Instruction {
	var out []ssa.Instruction
	if v.Referrers() == nil || d > 2 {
		return nil
	}
	for _, rf := range *v.Referrers() {
		switch x := rf.(type) {
		case *ssa.FieldAddr:
			if x.X == v {
				out = append(out, x)
			}
		case *ssa.UnOp:
			if x.Op == token.MUL && x.X == v {
				out = append(out, x)
			}
		case *ssa.IndexAddr:
			if x.X == v {
				out = append(out, x)
			}
		case *ssa.Call:
			// method call with v as pointer receiver that loads through it
			if f := x.Call.StaticCallee(); f != nil && len(x.Call.Args) > 0 && x.Call.Args[0] == v && f.Signature.Recv() != nil && f.Blocks != nil {
				if derefsReceiver(f) {
					out = append(out, x)
				}
			}
		case *ssa.ChangeType:
			out = append(out, derefUses(x, d+1)...)
		case *ssa.Phi:
			// flows on: conservatively follow one level
			out = append(out, derefUses(x, d+1)...)
		}
	}
	return out
}

// derefsReceiver: the method dereferences its pointer receiver in its entry block
// without testing it.
func derefsReceiver(f *ssa.Function) bool {
	if len(f.Params) == 0 {
		return false
	}
	recv := f.Params[0]
	if _, ok := recv.Type().Underlying().(*types.Pointer); !ok {
		return false
	}
	for _, in := range f.Blocks[0].Instrs {
		switch x := in.(type) {
		case *ssa.FieldAddr:
			if x.X == recv {
				return true
			}
		case *ssa.UnOp:
			if x.Op == token.MUL && x.X == recv {
				return true
			}
		}
	}
	return false
}

// nonNilAt: "v != nil" is a known fact at block b.
func (ff *FuncFacts) nonNilAt(v ssa.Value, b *ssa.BasicBlock) bool {
	t := ff.Term(v)
	for _, a := range ff.Must(b) {
		if a.S == t+" != nil" {
			return true
		}
	}
	return false
}

// nilOnlyForNilParam: every (nil, nil) return of f is dominated by "$k == nil" for a
// pointer parameter k, and the call passes a provably non-nil value (address of a
// local / fresh allocation) for k.
func (p *Program) nilOnlyForNilParam(f *ssa.Function, call *ssa.Call) bool {
	ff := p.Facts(f)
	n := f.Signature.Results().Len()
	guard := -1
	for _, b := range f.Blocks {
		ret, ok := b.Instrs[len(b.Instrs)-1].(*ssa.Return)
		if !ok || b == f.Recover || len(ret.Results) != n {
			continue
		}
		nilPtr := false
		for k := 0; k < n-1; k++ {
			if isNilConst(ret.Results[k]) {
				if _, isPtr := ret.Results[k].Type().Underlying().(*types.Pointer); isPtr {
					nilPtr = true
				}
			}
		}
		if !nilPtr || !isNilConst(ret.Results[n-1]) {
			if nilPtr || nilPossible(ret.Results[n-1], 0) {
				// other shapes (φ) are not summarised
				if _, isPhi := ret.Results[0].(*ssa.Phi); isPhi {
					return false
				}
			}
			continue
		}
		found := -1
		for _, a := range ff.Must(b) {
			for k := range f.Params {
				if a.S == fmt.Sprintf("$%d == nil", k) {
					found = k
				}
			}
		}
		if found < 0 || (guard >= 0 && guard != found) {
			return false
		}
		guard = found
	}
	if guard < 0 || guard >= len(call.Call.Args) {
		return false
	}
	switch call.Call.Args[guard].(type) {
	case *ssa.Alloc, *ssa.FieldAddr, *ssa.IndexAddr, *ssa.MakeInterface:
		return true
	}
	return false
}
