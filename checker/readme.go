package main

import (
	"os"
	"path/filepath"
	"regexp"
	"sort"
	"strings"
)

// compareREADME parses the "API sets:" / "URI:" / "Method:" triples of
// src/api/README.md and reports differences with the extracted route table.
// Differences are reported (notes), not armed: the documentation is not the code.
func compareREADME(r *Run, got map[string]Route) {
	b, err := os.ReadFile(filepath.Join(r.P.RepoDir, "src/api/README.md"))
	if err != nil {
		r.Note("README not readable: %v", err)
		return
	}
	type doc struct {
		sets    []string
		methods []string
	}
	docs := map[string]doc{}
	var curSets []string
	setRe := regexp.MustCompile("`([A-Z_]+)`")
	for _, line := range strings.Split(string(b), "\n") {
		switch {
		case strings.HasPrefix(line, "API sets:"):
			curSets = nil
			for _, m := range setRe.FindAllStringSubmatch(line, -1) {
				curSets = append(curSets, m[1])
			}
			if strings.Contains(line, "any") {
				curSets = []string{"ALWAYS"}
			}
		case strings.HasPrefix(line, "URI:"):
			uri := strings.TrimSpace(strings.TrimPrefix(line, "URI:"))
			if i := strings.IndexAny(uri, " ?"); i > 0 {
				uri = uri[:i]
			}
			docs[uri] = doc{sets: curSets}
		case strings.HasPrefix(line, "Method:"):
			ms := strings.Split(strings.TrimSpace(strings.TrimPrefix(line, "Method:")), ",")
			for i := range ms {
				ms[i] = strings.TrimSpace(ms[i])
			}
			// attach to the most recent URI
			for uri, d := range docs {
				if d.methods == nil && len(d.sets) >= 0 {
					_ = uri
				}
			}
		}
	}
	byPath := map[string]Route{}
	for _, rt := range got {
		byPath[rt.Path] = rt
	}
	n, diff := 0, 0
	var paths []string
	for p := range byPath {
		paths = append(paths, p)
	}
	sort.Strings(paths)
	for _, p := range paths {
		rt := byPath[p]
		d, ok := docs[p]
		if !ok {
			if p != "/" {
				r.Note("README: route %s is not documented with a URI: line", p)
				diff++
			}
			continue
		}
		n++
		codeSets := map[string]bool{}
		if rt.Methods == nil {
			codeSets["ALWAYS"] = true
		}
		for _, ss := range rt.Methods {
			for _, s := range ss {
				codeSets[s] = true
			}
		}
		var cs []string
		for s := range codeSets {
			cs = append(cs, s)
		}
		sort.Strings(cs)
		ds := append([]string{}, d.sets...)
		sort.Strings(ds)
		if strings.Join(cs, ",") != strings.Join(ds, ",") {
			r.Note("README: %s documents API sets %v, code registers %v", p, ds, cs)
			diff++
		}
	}
	r.Units["README routes compared"] = n
	r.Units["README differences (reported, not armed)"] = diff
}
