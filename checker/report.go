package main

import (
	"encoding/json"
	"fmt"
	"os"
	"path/filepath"
	"sort"
	"strings"
	"time"
)

// Obligation is one decided rule instance.  Key = Rule + Construct; it never
// contains a line number, so known findings survive unrelated edits while a
// *different* violation of the same rule is still reported.
type Obligation struct {
	Rule      string `json:"rule"`
	Construct string `json:"construct"`
	Pos       string `json:"pos,omitempty"`
	OK        bool   `json:"ok"`
	Detail    string `json:"detail,omitempty"`
}

type Run struct {
	Prop    string
	Tier    string
	Level   string
	P       *Program
	Obls    []Obligation
	Units   map[string]int // what was analysed: functions, call sites, paths …
	Notes   []string       // reported-but-not-armed observations
	NotDec  string         // the property's "not decided" line
	Explain string
	Extra   map[string]interface{}
	Assume  []string
	start   time.Time
	minimum map[string]int
	seen    map[string]bool
}

func NewRun(prop, tier string, p *Program) *Run {
	return &Run{Prop: prop, Tier: tier, Level: "other", P: p, Units: map[string]int{}, Extra: map[string]interface{}{},
		start: time.Now(), minimum: map[string]int{}, seen: map[string]bool{}}
}

// Check records an obligation.
func (r *Run) Check(rule, construct, pos string, ok bool, detail string) bool {
	key := rule + "|" + construct
	if r.seen[key] {
		// disambiguate repeated constructs deterministically
		for i := 2; ; i++ {
			k2 := fmt.Sprintf("%s|%s #%d", rule, construct, i)
			if !r.seen[k2] {
				construct = fmt.Sprintf("%s #%d", construct, i)
				key = k2
				break
			}
		}
	}
	r.seen[key] = true
	r.Obls = append(r.Obls, Obligation{Rule: rule, Construct: construct, Pos: pos, OK: ok, Detail: detail})
	return ok
}

func (r *Run) Fail(rule, construct, pos, detail string) { r.Check(rule, construct, pos, false, detail) }
func (r *Run) Pass(rule, construct, pos, detail string) { r.Check(rule, construct, pos, true, detail) }

// Min asserts that rule produced at least n obligations (a rule matching zero
// sites would otherwise pass vacuously forever).
func (r *Run) Min(rule string, n int) { r.minimum[rule] = n }

func (r *Run) Note(format string, a ...interface{}) {
	r.Notes = append(r.Notes, fmt.Sprintf(format, a...))
}

type Finding struct {
	Property  string `json:"property"`
	Rule      string `json:"rule"`
	Construct string `json:"construct"`
	What      string `json:"what"`
	Status    string `json:"status"` // "known" | "fixed"
	Commit    string `json:"commit,omitempty"`
}

func verifDir() string {
	if d := os.Getenv("VERIF_DIR"); d != "" {
		return d
	}
	return "/verif"
}

func loadFindings() []Finding {
	var doc struct {
		Findings []Finding `json:"findings"`
	}
	b, err := os.ReadFile(filepath.Join(verifDir(), "known_findings.json"))
	if err != nil {
		return nil
	}
	if err := json.Unmarshal(b, &doc); err != nil {
		fmt.Fprintln(os.Stderr, "known_findings.json:", err)
		os.Exit(2)
	}
	return doc.Findings
}

// Finish prints the verdict, writes the evidence file and returns the exit code.
func (r *Run) Finish() int {
	// minimum instance counts
	count := map[string]int{}
	for _, o := range r.Obls {
		count[o.Rule]++
	}
	var rules []string
	for k := range r.minimum {
		rules = append(rules, k)
	}
	sort.Strings(rules)
	for _, k := range rules {
		if count[k] < r.minimum[k] {
			r.Fail(k, "instance-count", "", fmt.Sprintf("rule matched %d sites, hand-confirmed minimum is %d (vacuous rule)", count[k], r.minimum[k]))
		}
	}
	known := map[string]Finding{}
	for _, f := range loadFindings() {
		if f.Property == r.Prop && f.Status == "known" {
			known[f.Rule+"|"+f.Construct] = f
		}
	}
	var viol, knownHit []Obligation
	discharged := 0
	for _, o := range r.Obls {
		if o.OK {
			discharged++
			continue
		}
		if _, ok := known[o.Rule+"|"+o.Construct]; ok {
			knownHit = append(knownHit, o)
		} else {
			viol = append(viol, o)
		}
	}
	quiet := os.Getenv("VERIF_QUIET") != ""
	if !quiet {
		fmt.Printf("property %s tier=%s: %d obligations, %d discharged, %d known findings, %d violations (%d packages, %d files, %d functions; load %.1fs)\n",
			r.Prop, r.Tier, len(r.Obls), discharged, len(knownHit), len(viol), len(r.P.Pkgs), r.P.NFiles, len(r.P.ModFns), r.P.LoadS)
		ks := make([]string, 0, len(r.Units))
		for k := range r.Units {
			ks = append(ks, k)
		}
		sort.Strings(ks)
		for _, k := range ks {
			fmt.Printf("  analysed %-28s %d\n", k, r.Units[k])
		}
		for _, n := range r.Notes {
			fmt.Println("  note:", n)
		}
	}
	for _, o := range knownHit {
		fmt.Printf("KNOWN-FINDING: property=%s %s %s at %s: %s\n", r.Prop, o.Rule, o.Construct, o.Pos, known[o.Rule+"|"+o.Construct].What)
	}
	evdir := filepath.Join(verifDir(), "evidence")
	os.MkdirAll(filepath.Join(evdir, "replay"), 0o755)
	if os.Getenv("VERIF_NO_EVIDENCE") == "" {
		// stale replay files of this property
		old, _ := filepath.Glob(filepath.Join(evdir, "replay", r.Prop+"-*.json"))
		for _, f := range old {
			os.Remove(f)
		}
	}
	for i, o := range viol {
		rp := filepath.Join(evdir, "replay", fmt.Sprintf("%s-%d.json", r.Prop, i+1))
		if os.Getenv("VERIF_NO_EVIDENCE") == "" {
			b, _ := json.MarshalIndent(map[string]interface{}{"property": r.Prop, "tier": r.Tier, "obligation": o,
				"replay": fmt.Sprintf("./check %s %s   # re-runs the rule on /repo's working tree; the failing construct is named above", r.Prop, r.Tier)}, "", " ")
			os.WriteFile(rp, b, 0o644)
		}
		fmt.Printf("  FAILED %s [%s] at %s: %s\n", o.Rule, o.Construct, o.Pos, o.Detail)
		fmt.Printf("VIOLATION property=%s replay=%s\n", r.Prop, rp)
	}
	if os.Getenv("VERIF_NO_EVIDENCE") == "" {
		r.writeEvidence(evdir, discharged, len(viol), knownHit)
	}
	if len(viol) > 0 {
		return 1
	}
	return 0
}

func (r *Run) writeEvidence(evdir string, discharged, nviol int, knownHit []Obligation) {
	samples := []interface{}{}
	perRule := map[string]int{}
	for _, o := range r.Obls {
		perRule[o.Rule]++
		if perRule[o.Rule] <= 6 {
			samples = append(samples, o)
		}
	}
	distinct := map[string]bool{}
	for _, o := range r.Obls {
		distinct[o.Rule+"|"+o.Construct] = true
	}
	cov := map[string]interface{}{
		"explanation":         r.Explain,
		"obligations":         len(r.Obls),
		"discharged":          discharged,
		"evaluations":         len(r.Obls),
		"distinct_nontrivial": len(distinct),
		"rule":                "one obligation per (rule, construct) instance found in /repo's working tree on this run; distinct = distinct (rule,construct) keys; every obligation names a typed construct and is non-trivial (decided from SSA/CFG/call-graph facts, not from text)",
		"samples":             samples,
		"per_rule":            perRule,
		"units_analysed":      r.Units,
		"packages":            len(r.P.Pkgs),
		"files":               r.P.NFiles,
		"functions_loaded":    len(r.P.ModFns),
		"known_findings":      knownHit,
		"notes":               r.Notes,
		"not_decided":         r.NotDec,
		"checker_cmd":         "bin/skyverif " + r.Prop + " " + r.Tier,
		"trusted_base":        []string{"go/types", "go/ssa", "x/tools callgraph cha+vta v0.29.0", "checker rule tables"},
	}
	for k, v := range r.Extra {
		cov[k] = v
	}
	seed := 0
	fmt.Sscanf(os.Getenv("VERIF_SEED"), "%d", &seed)
	ev := map[string]interface{}{
		"property_id": r.Prop,
		"tier":        r.Tier,
		"seed":        seed,
		"level":       r.Level,
		"coverage":    cov,
		"assumptions": append([]string{"static analysis only: nothing from /repo is executed; the structural clauses decided are necessary conditions of the behavioural property, not the behaviour itself", "not decided: " + r.NotDec}, r.Assume...),
		"wall_s":      time.Since(r.start).Seconds() + r.P.LoadS,
		"violations":  nviol,
	}
	b, _ := json.MarshalIndent(ev, "", " ")
	os.WriteFile(filepath.Join(evdir, r.Prop+".json"), b, 0o644)
}

func trunc(s string, n int) string {
	s = strings.ReplaceAll(s, "\n", " ")
	if len(s) > n {
		return s[:n] + "…"
	}
	return s
}
