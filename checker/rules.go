package main

import (
	"fmt"
	"go/token"
	"sort"
	"strings"

	"golang.org/x/tools/go/ssa"
)

// glob matches s against a pattern in which '*' stands for any (possibly empty)
// substring; everything else is literal.  The whole string must match.
func glob(pat, s string) bool {
	parts := strings.Split(pat, "*")
	if len(parts) == 1 {
		return pat == s
	}
	if !strings.HasPrefix(s, parts[0]) {
		return false
	}
	s = s[len(parts[0]):]
	last := parts[len(parts)-1]
	mid := parts[1 : len(parts)-1]
	for _, m := range mid {
		i := strings.Index(s, m)
		if i < 0 {
			return false
		}
		s = s[i+len(m):]
	}
	return strings.HasSuffix(s, last)
}

// Req is one required fact: a human name plus alternative patterns (any one
// matching any atom discharges it).
type Req struct {
	Name string
	Pats []string
}

func req(name string, pats ...string) Req { return Req{Name: name, Pats: pats} }

func matchAny(pats []string, atoms []string) (string, bool) {
	for _, a := range atoms {
		for _, p := range pats {
			if glob(p, a) {
				return a, true
			}
		}
	}
	// an implication "when: G1 && G2 => C" is also established where C holds outright, or where one of
	// the guards is known false (the same code written with an early return instead of a nested if)
	for _, p := range pats {
		if !strings.HasPrefix(p, "when: ") {
			continue
		}
		i := strings.Index(p, " => ")
		if i < 0 {
			continue
		}
		guards, concl := strings.Split(p[len("when: "):i], " && "), p[i+4:]
		for _, a := range atoms {
			if glob(concl, a) {
				return a, true
			}
			for _, g := range guards {
				for _, ng := range negations(g) {
					if glob(ng, a) {
						return a + "   (guard " + g + " is false here)", true
					}
				}
			}
		}
	}
	return "", false
}

// negations lists atom forms that contradict g.
func negations(g string) []string {
	g = strings.TrimSpace(g)
	if strings.HasPrefix(g, "!") {
		return []string{g[1:]}
	}
	for _, op := range []struct{ op, neg string }{{" == ", " != "}, {" != ", " == "}} {
		if i := strings.Index(g, op.op); i > 0 {
			a, b := g[:i], g[i+len(op.op):]
			return []string{a + op.neg + b, b + op.neg + a}
		}
	}
	if i := strings.Index(g, " <= "); i > 0 {
		a, b := g[:i], g[i+4:]
		return []string{b + " < " + a}
	}
	if i := strings.Index(g, " < "); i > 0 {
		a, b := g[:i], g[i+3:]
		out := []string{b + " <= " + a}
		if a == "0" {
			out = append(out, b+" == 0", "0 == "+b)
		}
		return out
	}
	return []string{"!" + g}
}

// fn resolves an anchor or records an anchor-unresolved violation (fail closed).
func (r *Run) fn(rule, ref string) *ssa.Function {
	f := r.P.Fn(ref)
	if f == nil || f.Blocks == nil {
		r.Fail(rule, "anchor "+ref, "", "anchor-unresolved: function "+ref+" not found in /repo (renamed or removed?)")
		return nil
	}
	r.Units["functions"]++
	return f
}

// RequireOnSuccess: on every success exit of fnRef each Req holds.
func (r *Run) RequireOnSuccess(rule, fnRef string, reqs ...Req) {
	fn := r.fn(rule, fnRef)
	if fn == nil {
		return
	}
	ff := r.P.Facts(fn)
	exits, facts := ff.SuccessFacts()
	if len(exits) == 0 {
		r.Fail(rule, fnRef+" success-exit", r.P.Pos(fn.Pos()), "function has no success exit")
		return
	}
	r.Units["success exits"] += len(exits)
	for _, q := range reqs {
		ok := true
		detail := ""
		pos := ""
		for i, ex := range exits {
			a, m := matchAny(q.Pats, facts[i])
			if !m {
				ok = false
				pos = r.P.Pos(ex.Pos)
				detail = fmt.Sprintf("success return at %s is reachable without establishing %q (patterns %v)", r.P.Pos(ex.Pos), q.Name, q.Pats)
				break
			}
			if detail == "" {
				detail = "established by: " + trunc(a, 200)
				for _, at := range ff.Must(ex.Block) {
					if at.S == a {
						pos = r.P.Pos(at.Pos)
					}
				}
			}
		}
		r.Check(rule, fnRef+": "+q.Name, pos, ok, detail)
	}
}

// ExhaustiveRejects: every condition the function enforces (rejects unless) must be
// one of the documented ones.  allowed = patterns of documented conditions.
func (r *Run) ExhaustiveRejects(rule, fnRef string, allowed ...Req) {
	fn := r.fn(rule, fnRef)
	if fn == nil {
		return
	}
	ff := r.P.Facts(fn)
	enf := ff.Enforced()
	r.Units["enforced conditions"] += len(enf)
	for _, e := range enf {
		name := ""
		for _, q := range allowed {
			if _, m := matchAny(q.Pats, e.Atoms); m {
				name = q.Name
				break
			}
		}
		if name == "" {
			r.Check(rule, fnRef+": undocumented rejection "+trunc(e.Atoms[0], 120), r.P.Pos(e.Pos), false,
				"the function rejects unless "+trunc(e.Atoms[0], 200)+" — not in the documented rule set")
		} else {
			r.Check(rule, fnRef+": rejection is documented rule "+name, r.P.Pos(e.Pos), true, trunc(e.Atoms[0], 200))
		}
	}
	// exits that could not be classified are reported (fail closed)
	for _, ex := range ff.Exits() {
		if ex.Kind == ExitUnknown {
			r.Check(rule, fnRef+": unclassified return "+trunc(ex.Desc, 80), r.P.Pos(ex.Pos), false, "undecided: cannot tell whether this return is a success or a rejection")
		}
	}
}

// CallSites returns the call instructions in fn (and optionally its closures)
// whose static callee — or, for interface calls, method name on a module interface —
// matches callee (as rendered by FnName, or "iface:Type.Method").
func (r *Run) CallSites(fn *ssa.Function, callee string) []ssa.CallInstruction {
	var out []ssa.CallInstruction
	for _, b := range fn.Blocks {
		for _, in := range b.Instrs {
			ci, ok := in.(ssa.CallInstruction)
			if !ok {
				continue
			}
			if calleeName(ci.Common()) == callee {
				out = append(out, ci)
			}
		}
	}
	return out
}

func calleeName(c *ssa.CallCommon) string {
	if c.IsInvoke() {
		return "iface:" + typeShort(c.Value.Type()) + "." + c.Method.Name()
	}
	switch f := c.Value.(type) {
	case *ssa.Function:
		return FnName(f)
	case *ssa.Builtin:
		return f.Name()
	case *ssa.MakeClosure:
		return FnName(f.Fn.(*ssa.Function))
	}
	return "dyn"
}

// RequireAtCall: every call to callee inside fnRef is dominated by the Reqs.
// min = minimum number of such call sites.
func (r *Run) RequireAtCall(rule, fnRef, callee string, min int, reqs ...Req) []ssa.CallInstruction {
	fn := r.fn(rule, fnRef)
	if fn == nil {
		return nil
	}
	ff := r.P.Facts(fn)
	sites := r.CallSites(fn, callee)
	if len(sites) < min {
		r.Fail(rule, fmt.Sprintf("%s: calls %s", fnRef, callee), r.P.Pos(fn.Pos()), fmt.Sprintf("anchor-unresolved: expected >= %d call(s) to %s in %s, found %d", min, callee, fnRef, len(sites)))
		return sites
	}
	r.Units["call sites"] += len(sites)
	for _, cs := range sites {
		var facts []string
		for _, a := range ff.MustAt(cs) {
			facts = append(facts, a.S)
		}
		for _, q := range reqs {
			a, m := matchAny(q.Pats, facts)
			d := "established by: " + trunc(a, 200)
			if !m {
				d = fmt.Sprintf("call to %s is reachable without %q (patterns %v)", callee, q.Name, q.Pats)
			}
			r.Check(rule, fmt.Sprintf("%s -> %s: %s", fnRef, callee, q.Name), r.P.Pos(cs.Pos()), m, d)
		}
	}
	return sites
}

// argTerm renders the k-th argument of a call site.
func (r *Run) argTerm(cs ssa.CallInstruction, k int) string {
	ff := r.P.Facts(cs.Parent())
	args := cs.Common().Args
	if k >= len(args) {
		return "<none>"
	}
	return ff.Term(args[k])
}

func (r *Run) posOf(p token.Pos) string { return r.P.Pos(p) }

// dumpFacts lists success facts of a function, for evidence samples.
func (r *Run) successFactStrings(fnRef string) []string {
	fn := r.P.Fn(fnRef)
	if fn == nil {
		return nil
	}
	ff := r.P.Facts(fn)
	_, facts := ff.SuccessFacts()
	set := map[string]bool{}
	for _, f := range facts {
		for _, s := range f {
			set[s] = true
		}
	}
	var out []string
	for s := range set {
		out = append(out, s)
	}
	sort.Strings(out)
	return out
}

// checkPure: fn performs no store through its parameters (so that two loads of the
// same access path denote the same value — the soundness condition of the term
// normalisation — and a verifier cannot "fix up" what it verifies).
func checkPure(r *Run, rule, fnRef string) {
	fn := r.fn(rule, fnRef)
	if fn == nil {
		return
	}
	ff := r.P.Facts(fn)
	bad := ""
	pos := token.NoPos
	n := 0
	for _, b := range fn.Blocks {
		for _, in := range b.Instrs {
			st, ok := in.(*ssa.Store)
			if !ok {
				continue
			}
			n++
			if rootIsParam(st.Addr) {
				bad = ff.Term(st.Addr)
				pos = st.Pos()
			}
		}
	}
	r.Units["stores inspected"] += n
	r.Check(rule, fnRef+": no store through a parameter", r.P.Pos(pos), bad == "", "store to "+bad)
}

func rootIsParam(v ssa.Value) bool {
	for d := 0; d < 20; d++ {
		switch x := v.(type) {
		case *ssa.Parameter:
			return true
		case *ssa.FreeVar:
			return true
		case *ssa.FieldAddr:
			v = x.X
		case *ssa.IndexAddr:
			v = x.X
		case *ssa.UnOp:
			v = x.X
		case *ssa.Slice:
			v = x.X
		case *ssa.ChangeType:
			v = x.X
		case *ssa.Convert:
			v = x.X
		case *ssa.Phi:
			for _, e := range x.Edges {
				if e != x && rootIsParam(e) {
					return true
				}
			}
			return false
		default:
			return false
		}
	}
	return false
}

// scopedStore is a store of fn or of one of its single-use helpers, rendered in fn's own terms, with the
// facts known when it executes (the helper's facts with the arguments substituted, plus the caller's facts
// at the helper's call site).
type scopedStore struct {
	S     string
	In    ssa.Instruction
	Facts []string
}

func (r *Run) scopedStores(fn *ssa.Function) []scopedStore {
	var out []scopedStore
	ff := r.P.Facts(fn)
	for _, s := range ff.StoreFacts() {
		var facts []string
		for _, a := range ff.MustAt(s.In) {
			facts = append(facts, a.S)
		}
		out = append(out, scopedStore{s.S, s.In, facts})
	}
	for _, h := range r.P.singleUseCallees(fn, 2) {
		hf := r.P.Facts(h)
		for _, s := range hf.StoreFacts() {
			// express the store and its facts in the terms of the outermost caller
			txt := s.S
			var facts []string
			for _, a := range hf.MustAt(s.In) {
				facts = append(facts, a.S)
			}
			cur := h
			okChain := false
			for d := 0; d < 3; d++ {
				site, caller := r.P.onlyCallSite(cur)
				if site == nil {
					break
				}
				cf := r.P.Facts(caller)
				var args []string
				for _, a := range site.Common().Args {
					args = append(args, cf.Term(a))
				}
				txt = substParams(txt, args)
				for i := range facts {
					facts[i] = substParams(facts[i], args)
				}
				for _, a := range cf.Must(site.Block()) {
					facts = append(facts, a.S)
				}
				cur = caller
				if cur == fn {
					okChain = true
					break
				}
			}
			if okChain {
				out = append(out, scopedStore{txt, s.In, facts})
			}
		}
	}
	return out
}

// helperChain: for a single-use helper h reachable from fn, the function that rewrites h's terms into
// fn's terms (arguments substituted along the chain of call sites) and the facts known in fn's terms at
// h's call site.  ok=false when h is not (transitively) a single-use helper of fn.
func (r *Run) helperChain(fn, h *ssa.Function) (subst func(string) string, outer []string, ok bool) {
	var chain [][]string
	cur := h
	for d := 0; d < 3 && cur != fn; d++ {
		site, caller := r.P.onlyCallSite(cur)
		if site == nil {
			return nil, nil, false
		}
		cf := r.P.Facts(caller)
		var args []string
		for _, a := range site.Common().Args {
			args = append(args, cf.Term(a))
		}
		chain = append(chain, args)
		for i := range outer {
			outer[i] = substParams(outer[i], args)
		}
		for _, a := range cf.Must(site.Block()) {
			outer = append(outer, a.S)
		}
		cur = caller
	}
	if cur != fn {
		return nil, nil, false
	}
	// outer facts collected at inner levels were already rewritten level by level above
	return func(t string) string {
		for _, args := range chain {
			t = substParams(t, args)
		}
		return t
	}, outer, true
}

// scopedLatch is a loop latch of fn or of one of its single-use helpers with facts in fn's terms.
type scopedLatch struct {
	FF    *FuncFacts
	Loop  *Loop
	Latch *ssa.BasicBlock
	Facts []string
	Space string
}

func (r *Run) scopedLatches(fn *ssa.Function) []scopedLatch {
	var out []scopedLatch
	for _, f := range append([]*ssa.Function{fn}, r.P.singleUseCallees(fn, 2)...) {
		subst, outer := func(t string) string { return t }, []string(nil)
		if f != fn {
			var ok bool
			if subst, outer, ok = r.helperChain(fn, f); !ok {
				continue
			}
		}
		ff := r.P.Facts(f)
		for _, lp := range ff.loops {
			for _, lt := range lp.Latches {
				var fs []string
				for _, a := range ff.Must(lt) {
					fs = append(fs, subst(a.S))
				}
				fs = append(fs, outer...)
				out = append(out, scopedLatch{ff, lp, lt, fs, subst(ff.loopSpace(lp))})
			}
		}
	}
	return out
}

// onlyCallSite: the single static call site of a single-use helper.
func (p *Program) onlyCallSite(h *ssa.Function) (ssa.CallInstruction, *ssa.Function) {
	if !p.singleUse(h) {
		return nil, nil
	}
	for _, g := range p.ModFns {
		for _, gb := range g.Blocks {
			for _, in := range gb.Instrs {
				if ci, ok := in.(ssa.CallInstruction); ok && ci.Common().StaticCallee() == h {
					return ci, g
				}
			}
		}
	}
	return nil, nil
}

// RequireStore: fnRef (or one of its single-use helpers) contains a store matching one of pats.
func (r *Run) RequireStore(rule, fnRef, name string, pats ...string) {
	fn := r.fn(rule, fnRef)
	if fn == nil {
		return
	}
	for _, s := range r.scopedStores(fn) {
		for _, p := range pats {
			if glob(p, s.S) {
				r.Check(rule, fnRef+": "+name, r.P.Pos(s.In.Pos()), true, "store: "+trunc(s.S, 200))
				return
			}
		}
	}
	r.Check(rule, fnRef+": "+name, r.P.Pos(fn.Pos()), false, fmt.Sprintf("no store matching %v", pats))
}

// RequireAtStore: every store (of fnRef or its single-use helpers) whose "ADDR := VAL" text matches
// storePat is dominated by the Reqs.  min = minimum number of matching stores.
func (r *Run) RequireAtStore(rule, fnRef, storePat string, min int, reqs ...Req) {
	fn := r.fn(rule, fnRef)
	if fn == nil {
		return
	}
	n := 0
	for _, s := range r.scopedStores(fn) {
		if !glob(storePat, s.S) {
			continue
		}
		n++
		facts := s.Facts
		for _, q := range reqs {
			a, m := matchAny(q.Pats, facts)
			d := "established by: " + trunc(a, 200)
			if !m {
				d = fmt.Sprintf("store %s is reachable without %q (patterns %v)", trunc(s.S, 100), q.Name, q.Pats)
			}
			r.Check(rule, fmt.Sprintf("%s store %s: %s", fnRef, trunc(s.S, 80), q.Name), r.P.Pos(s.In.Pos()), m, d)
		}
	}
	if n < min {
		r.Fail(rule, fmt.Sprintf("%s: stores matching %s", fnRef, storePat), r.P.Pos(fn.Pos()), fmt.Sprintf("anchor-unresolved: expected >= %d store(s) matching %q, found %d", min, storePat, n))
	}
	r.Units["stores matched"] += n
}

// RequireEveryIteration: the (single) call to callee inside a loop of fnRef is
// executed in every iteration that continues (no path from the loop header to a
// latch avoids it).
func (r *Run) RequireEveryIteration(rule, fnRef, callee string) {
	fn := r.fn(rule, fnRef)
	if fn == nil {
		return
	}
	ff := r.P.Facts(fn)
	sites := r.CallSites(fn, callee)
	if len(sites) == 0 {
		r.Fail(rule, fnRef+": calls "+callee, r.P.Pos(fn.Pos()), "anchor-unresolved: no call to "+callee)
		return
	}
	for _, cs := range sites {
		B := cs.Block()
		lp := ff.innermost[B]
		if lp == nil {
			r.Check(rule, fnRef+": "+callee+" is inside the per-element loop", r.P.Pos(cs.Pos()), false, "call is not inside a loop")
			continue
		}
		ok := true
		reach := ff.reachFrom(lp.Header, B)
		for _, lt := range lp.Latches {
			if reach[lt] && lt != B {
				// reachable while avoiding B: only a problem if the path stays inside the loop
				if ff.reachWithin(lp, lp.Header, lt, B) {
					ok = false
				}
			}
		}
		r.Check(rule, fnRef+": every continuing iteration executes "+callee, r.P.Pos(cs.Pos()), ok,
			"an iteration can reach the next element without calling "+callee+" (a `continue` or branch bypasses it)")
	}
}

// RequireAtStoreAnyPath: for every store matching storePat, every acyclic path to it
// (within one loop iteration) satisfies at least one of the alternative patterns.
func (r *Run) RequireAtStoreAnyPath(rule, fnRef, storePat string, min int, q Req) {
	fn := r.fn(rule, fnRef)
	if fn == nil {
		return
	}
	ff := r.P.Facts(fn)
	n := 0
	for _, s := range ff.StoreFacts() {
		if !glob(storePat, s.S) {
			continue
		}
		n++
		paths, ok := ff.PathFacts(s.In.Block(), 4000)
		r.Units["paths enumerated"] += len(paths)
		good := ok && len(paths) > 0
		detail := fmt.Sprintf("%d paths, each satisfies one of %v", len(paths), q.Pats)
		if !ok {
			detail = "undecided: too many paths"
		}
		for _, p := range paths {
			if _, m := matchAny(q.Pats, p); !m {
				good = false
				detail = fmt.Sprintf("a path reaches the store without %q; path conditions: %s", q.Name, trunc(strings.Join(p, " ; "), 300))
				break
			}
		}
		r.Check(rule, fmt.Sprintf("%s store %s: %s", fnRef, trunc(s.S, 80), q.Name), r.P.Pos(s.In.Pos()), good, detail)
	}
	if n < min {
		r.Fail(rule, fmt.Sprintf("%s: stores matching %s", fnRef, storePat), r.P.Pos(fn.Pos()), fmt.Sprintf("anchor-unresolved: expected >= %d store(s), found %d", min, n))
	}
}

// ShapeCase: an exit that returns a value matching Returns under facts matching When
// ("" = unconditional).
type ShapeCase struct{ When, Returns string }

// ReturnShape: the value-returning function fnRef has exactly the given exits
// (result index k): every return matches exactly one case and every case is used.
func (r *Run) ReturnShape(rule, fnRef string, k int, cases ...ShapeCase) {
	fn := r.fn(rule, fnRef)
	if fn == nil {
		return
	}
	ff := r.P.Facts(fn)
	used := make([]bool, len(cases))
	for _, b := range fn.Blocks {
		if len(b.Instrs) == 0 {
			continue
		}
		ret, ok := b.Instrs[len(b.Instrs)-1].(*ssa.Return)
		if !ok || k >= len(ret.Results) || b == fn.Recover {
			continue
		}
		// expand φ results per incoming edge
		type alt struct {
			val   string
			facts []string
		}
		var alts []alt
		base := func(bb *ssa.BasicBlock) []string {
			var fs []string
			for _, a := range ff.Must(bb) {
				fs = append(fs, a.S)
			}
			return fs
		}
		if phi, ok := ret.Results[k].(*ssa.Phi); ok && phi.Block() == b {
			for i, e := range phi.Edges {
				pb := b.Preds[i]
				alts = append(alts, alt{ff.Term(e), append(base(pb), ff.edgeAtoms(pb, b)...)})
			}
		} else {
			alts = append(alts, alt{ff.Term(ret.Results[k]), base(b)})
		}
		// "return helper(args)": the value is the helper's success value, under what the helper established
		if last := len(ret.Results) - 1; last > k && isErrorType(ret.Results[last].Type()) {
			if call := ff.callTerm(ret.Results[last]); call != "" {
				extra := append([]string{"ok(" + call + ")"}, ff.importHelperFacts(ret.Results[last])...)
				for i := range alts {
					alts[i].facts = append(alts[i].facts, extra...)
				}
			}
		}
		for _, a := range alts {
			m := -1
			for ci, c := range cases {
				if !glob(c.Returns, a.val) {
					continue
				}
				if c.When != "" {
					if _, ok := matchAny([]string{c.When}, a.facts); !ok {
						continue
					}
				}
				m = ci
				break
			}
			if m < 0 {
				r.Check(rule, fnRef+": unexpected return "+trunc(a.val, 100), r.P.Pos(ret.Pos()), false, "return value/guard not in the documented shape; facts: "+trunc(strings.Join(a.facts, " ; "), 300))
			} else {
				used[m] = true
				r.Check(rule, fnRef+": returns "+trunc(cases[m].Returns, 80)+" when "+trunc(cases[m].When, 80), r.P.Pos(ret.Pos()), true, a.val)
			}
		}
	}
	for ci, c := range cases {
		if !used[ci] {
			r.Check(rule, fnRef+": documented case "+trunc(c.Returns, 80)+" when "+trunc(c.When, 60), r.P.Pos(fn.Pos()), false, "no return of this shape exists")
		}
	}
}

// RejectsAre: every reject exit of fnRef returns an error matching one of pats.
func (r *Run) RejectsAre(rule, fnRef string, min int, pats ...string) {
	fn := r.fn(rule, fnRef)
	if fn == nil {
		return
	}
	ff := r.P.Facts(fn)
	n := 0
	for _, ex := range ff.Exits() {
		if ex.Kind == ExitSuccess {
			continue
		}
		if ex.Kind == ExitPanic {
			continue
		}
		n++
		ok := false
		for _, p := range pats {
			if glob(p, ex.Desc) {
				ok = true
			}
		}
		if !ok && ex.Ret != nil {
			// the error of a single-use helper: all of the helper's own error returns must be of the class
			results := append([]ssa.Value{}, ex.Ret.Results...)
			if ex.Val != nil {
				results = append(results, ex.Val)
			}
			for _, res := range results {
				var c *ssa.Call
				switch x := res.(type) {
				case *ssa.Call:
					c = x
				case *ssa.Extract:
					c, _ = x.Tuple.(*ssa.Call)
				}
				if c == nil {
					continue
				}
				if h := c.Call.StaticCallee(); h != nil && r.P.singleUse(h) {
					hf := r.P.Facts(h)
					all, any := true, false
					for _, hx := range hf.Exits() {
						if hx.Kind == ExitSuccess || hx.Kind == ExitPanic {
							continue
						}
						any = true
						m := false
						for _, p := range pats {
							if glob(p, hx.Desc) {
								m = true
							}
						}
						if !m {
							all = false
						}
					}
					if any && all {
						ok = true
					}
				}
			}
		}
		r.Check(rule, fnRef+": error return "+trunc(ex.Desc, 90), r.P.Pos(ex.Pos), ok, fmt.Sprintf("returned error is not of the required class %v", pats))
	}
	if n < min {
		r.Fail(rule, fnRef+": error returns", r.P.Pos(fn.Pos()), fmt.Sprintf("expected >= %d error returns, found %d", min, n))
	}
}

// RequireBranchOnEverySuccessPath: some branch whose condition (either polarity)
// matches condPat dominates every success exit of fnRef (the condition is evaluated
// on every accepting path).
func (r *Run) RequireBranchOnEverySuccessPath(rule, fnRef, name, condPat string) {
	fn := r.fn(rule, fnRef)
	if fn == nil {
		return
	}
	ff := r.P.Facts(fn)
	exits, _ := ff.SuccessFacts()
	for _, b := range fn.Blocks {
		iff := ifOf(b)
		if iff == nil {
			continue
		}
		m := false
		for _, a := range append(ff.condAtomsX(iff.Cond, true), ff.condAtomsX(iff.Cond, false)...) {
			if glob(condPat, a) {
				m = true
			}
		}
		if !m {
			continue
		}
		all := len(exits) > 0
		for _, ex := range exits {
			if !b.Dominates(ex.Block) {
				all = false
			}
		}
		if all {
			r.Pass(rule, fnRef+": "+name, r.P.Pos(ff.condPos(b)), "branch on "+condPat+" dominates every success exit")
			return
		}
	}
	r.Fail(rule, fnRef+": "+name, r.P.Pos(fn.Pos()), "no branch on "+condPat+" is evaluated on every accepting path")
}

// RequireFollows: after the call to `first` succeeded (its ok edge), every path to a
// function exit passes through a call matching `then` whose first argument term
// starts with argPrefix ("" = any).  (must-pass-through / post-dominance, engine E4)
func (r *Run) RequireFollows(rule, fnRef, first, then, argPrefix, name string, allowedExit ...string) {
	fn := r.fn(rule, fnRef)
	if fn == nil {
		return
	}
	ff := r.P.Facts(fn)
	var targets []*ssa.BasicBlock
	for _, cs := range r.CallSites(fn, then) {
		if argPrefix == "" || strings.HasPrefix(r.argTerm(cs, 0), argPrefix) {
			targets = append(targets, cs.Block())
		}
	}
	// the step may be performed inside a single-use helper called from fn
	for _, b := range fn.Blocks {
		for _, in := range b.Instrs {
			ci, ok := in.(ssa.CallInstruction)
			if !ok {
				continue
			}
			h := ci.Common().StaticCallee()
			if h == nil || !r.P.singleUse(h) {
				continue
			}
			for _, hs := range r.CallSites(h, then) {
				if argPrefix == "" || strings.HasPrefix(r.P.Facts(h).Term(hs.Common().Args[0]), argPrefix) || len(hs.Common().Args) > 1 && strings.HasPrefix(r.P.Facts(h).Term(hs.Common().Args[1]), argPrefix) {
					// the helper must reach that call on all of its own exits
					if okAll, _ := mustExecOnAllExits(h, func(i ssa.Instruction) bool { return i == hs.(ssa.Instruction) }); okAll {
						targets = append(targets, b)
					}
				}
			}
		}
	}
	firsts := r.CallSites(fn, first)
	if len(firsts) == 0 || len(targets) == 0 {
		r.Fail(rule, fnRef+": "+name, r.P.Pos(fn.Pos()), fmt.Sprintf("anchor-unresolved: %d calls to %s, %d matching calls to %s", len(firsts), first, len(targets), then))
		return
	}
	isTarget := map[*ssa.BasicBlock]bool{}
	for _, t := range targets {
		isTarget[t] = true
	}
	for _, cs := range firsts {
		// success successor of the call's block
		B := cs.Block()
		start := B
		if iff := ifOf(B); iff != nil {
			if v, ok := cs.(ssa.Value); ok {
				okAtom := "ok(" + ff.callTerm(v) + ")"
				for i, s := range B.Succs {
					for _, a := range ff.condAtomsX(iff.Cond, i == 0) {
						if a == okAtom {
							start = s
						}
					}
				}
			}
		}
		// search for an exit reachable from start without passing a target block
		seen := map[*ssa.BasicBlock]bool{}
		stack := []*ssa.BasicBlock{start}
		var escape *ssa.BasicBlock
		for len(stack) > 0 && escape == nil {
			n := stack[len(stack)-1]
			stack = stack[:len(stack)-1]
			if seen[n] || isTarget[n] {
				continue
			}
			seen[n] = true
			if len(n.Succs) == 0 {
				if _, isRet := n.Instrs[len(n.Instrs)-1].(*ssa.Return); isRet {
					var fs []string
					for _, a := range ff.Must(n) {
						fs = append(fs, a.S)
					}
					if _, ok := matchAny(allowedExit, fs); !ok {
						escape = n
					}
				}
				continue
			}
			stack = append(stack, n.Succs...)
		}
		pos := r.P.Pos(cs.Pos())
		if escape != nil {
			r.Check(rule, fnRef+": "+name, pos, false, "after "+first+" succeeded the function can return (at "+r.P.Pos(escape.Instrs[len(escape.Instrs)-1].Pos())+") without "+then)
		} else {
			r.Check(rule, fnRef+": "+name, pos, true, "every exit after a successful "+first+" passes "+then)
		}
	}
}

// RequireReturnAllPaths: for every return of fnRef whose k-th result term matches
// retPat, every acyclic path to it satisfies one of the Req's patterns.
func (r *Run) RequireReturnAllPaths(rule, fnRef string, k int, retPat string, min int, q Req) {
	fn := r.fn(rule, fnRef)
	if fn == nil {
		return
	}
	ff := r.P.Facts(fn)
	n := 0
	for _, b := range fn.Blocks {
		ret, ok := b.Instrs[len(b.Instrs)-1].(*ssa.Return)
		if !ok || k >= len(ret.Results) || !glob(retPat, ff.Term(ret.Results[k])) {
			continue
		}
		n++
		paths, okp := ff.PathFacts(b, 4000)
		r.Units["paths enumerated"] += len(paths)
		good := okp && len(paths) > 0
		detail := fmt.Sprintf("%d paths", len(paths))
		for _, p := range paths {
			if _, m := matchAny(q.Pats, p); !m {
				good = false
				detail = "a path reaches this return without " + q.Name + ": " + trunc(strings.Join(p, " ; "), 300)
				break
			}
		}
		r.Check(rule, fmt.Sprintf("%s: return %s only when %s", fnRef, trunc(retPat, 50), q.Name), r.P.Pos(ret.Pos()), good, detail)
	}
	if n < min {
		r.Fail(rule, fmt.Sprintf("%s: returns matching %s", fnRef, retPat), r.P.Pos(fn.Pos()), fmt.Sprintf("anchor-unresolved: expected >= %d, found %d", min, n))
	}
}

// RequireBranchDominatesCall: a branch whose condition matches condPat (either
// polarity) dominates every call to callee in fnRef (it is evaluated before the call
// on every path).
func (r *Run) RequireBranchDominatesCall(rule, fnRef, callee, name, condPat string) {
	fn := r.fn(rule, fnRef)
	if fn == nil {
		return
	}
	ff := r.P.Facts(fn)
	sites := r.CallSites(fn, callee)
	if len(sites) == 0 {
		r.Fail(rule, fnRef+": "+name, r.P.Pos(fn.Pos()), "anchor-unresolved: no call to "+callee)
		return
	}
	for _, cs := range sites {
		found := false
		for _, b := range fn.Blocks {
			iff := ifOf(b)
			if iff == nil || !b.Dominates(cs.Block()) || b == cs.Block() {
				continue
			}
			for _, a := range append(ff.condAtomsX(iff.Cond, true), ff.condAtomsX(iff.Cond, false)...) {
				if glob(condPat, a) {
					found = true
				}
			}
		}
		r.Check(rule, fnRef+": "+name, r.P.Pos(cs.Pos()), found, "no branch on "+condPat+" dominates the call to "+callee)
	}
}

// RequirePhiEdgeAllPaths: for every φ of fn that has an incoming edge whose value
// renders as edgeVal, every acyclic path reaching that edge satisfies q.
func (r *Run) RequirePhiEdgeAllPaths(rule string, fn *ssa.Function, edgeVal string, q Req) {
	if fn == nil {
		return
	}
	ff := r.P.Facts(fn)
	n := 0
	for _, b := range fn.Blocks {
		for _, in := range b.Instrs {
			phi, ok := in.(*ssa.Phi)
			if !ok {
				continue
			}
			for i, e := range phi.Edges {
				if !glob(edgeVal, ff.Term(e)) {
					continue
				}
				n++
				pred := b.Preds[i]
				paths, okp := ff.PathFacts(pred, 2000)
				edge := ff.edgeAtoms(pred, b)
				good := okp && len(paths) > 0
				detail := ""
				for _, p := range paths {
					if _, m := matchAny(q.Pats, append(append([]string{}, p...), edge...)); !m {
						good = false
						detail = "path: " + trunc(strings.Join(append(p, edge...), " ; "), 300)
					}
				}
				r.Check(rule, FnName(fn)+": value "+trunc(edgeVal, 60)+" selected only when "+q.Name, r.P.Pos(ff.condPos(pred)), good, detail)
			}
		}
	}
	if n == 0 {
		r.Fail(rule, FnName(fn)+": φ edge "+trunc(edgeVal, 60), r.P.Pos(fn.Pos()), "anchor-unresolved: no such φ edge")
	}
}

// RequireAtCallAllPaths: every path to each call of callee in fn satisfies q.
func (r *Run) RequireAtCallAllPaths(rule string, fn *ssa.Function, callee string, min int, q Req) {
	if fn == nil {
		return
	}
	ff := r.P.Facts(fn)
	sites := r.CallSites(fn, callee)
	if len(sites) < min {
		r.Fail(rule, FnName(fn)+": calls "+callee, r.P.Pos(fn.Pos()), "anchor-unresolved")
		return
	}
	for _, cs := range sites {
		paths, okp := ff.PathFacts(cs.Block(), 4000)
		good := okp && len(paths) > 0
		detail := fmt.Sprintf("%d paths", len(paths))
		for _, p := range paths {
			if _, m := matchAny(q.Pats, p); !m {
				good = false
				detail = "a path reaches the call without " + q.Name + ": " + trunc(strings.Join(p, " ; "), 300)
				break
			}
		}
		r.Units["paths enumerated"] += len(paths)
		r.Check(rule, FnName(fn)+" -> "+callee+": "+q.Name, r.P.Pos(cs.Pos()), good, detail)
	}
}

// RequireAtCallFn: like RequireAtCall but on an already resolved function (closures).
func (r *Run) RequireAtCallFn(rule string, fn *ssa.Function, callee string, min int, reqs ...Req) []ssa.CallInstruction {
	if fn == nil {
		return nil
	}
	ff := r.P.Facts(fn)
	sites := r.CallSites(fn, callee)
	if len(sites) < min {
		r.Fail(rule, FnName(fn)+": calls "+callee, r.P.Pos(fn.Pos()), fmt.Sprintf("anchor-unresolved: expected >= %d call(s), found %d", min, len(sites)))
		return sites
	}
	for _, cs := range sites {
		var facts []string
		for _, a := range ff.MustAt(cs) {
			facts = append(facts, a.S)
		}
		for _, q := range reqs {
			a, m := matchAny(q.Pats, facts)
			d := "established by: " + trunc(a, 200)
			if !m {
				d = fmt.Sprintf("call to %s is reachable without %q", callee, q.Name)
			}
			r.Check(rule, FnName(fn)+" -> "+callee+": "+q.Name, r.P.Pos(cs.Pos()), m, d)
		}
	}
	return sites
}

type valueInstr interface {
	ssa.Instruction
	ssa.Value
}

// RequireOnSuccessExcept: like RequireOnSuccess, but success exits whose facts match
// one of exceptPats (documented trivial early returns) are exempt; at least one
// non-exempt exit must remain.
func (r *Run) RequireOnSuccessExcept(rule, fnRef string, exceptPats []string, reqs ...Req) {
	fn := r.fn(rule, fnRef)
	if fn == nil {
		return
	}
	ff := r.P.Facts(fn)
	exits, facts := ff.SuccessFacts()
	n := 0
	for _, q := range reqs {
		ok := true
		detail, pos := "", ""
		n = 0
		for i, ex := range exits {
			if _, skip := matchAny(exceptPats, facts[i]); skip {
				continue
			}
			n++
			a, m := matchAny(q.Pats, facts[i])
			if !m {
				ok = false
				pos = r.P.Pos(ex.Pos)
				detail = fmt.Sprintf("success return at %s is reachable without establishing %q", r.P.Pos(ex.Pos), q.Name)
				break
			}
			if detail == "" {
				detail = "established by: " + trunc(a, 200)
				pos = r.P.Pos(ex.Pos)
			}
		}
		r.Check(rule, fnRef+": "+q.Name, pos, ok && n > 0, detail)
	}
}

// RequireCallOrder: the named callees are each called in fnRef and in this order:
// every call of callee[i+1] is dominated by a call of callee[i].
func (r *Run) RequireCallOrder(rule, fnRef, name string, callees ...string) {
	fn := r.fn(rule, fnRef)
	if fn == nil {
		return
	}
	matches := func(n, c string) bool {
		return n == c || (strings.HasSuffix(c, "*") && strings.HasPrefix(n, strings.TrimSuffix(c, "*")))
	}
	var callsIn func(h *ssa.Function, c string, d int) bool
	callsIn = func(h *ssa.Function, c string, d int) bool {
		for _, b := range h.Blocks {
			for _, in := range b.Instrs {
				if ci, ok := in.(*ssa.Call); ok {
					if matches(calleeName(ci.Common()), c) {
						return true
					}
					if hh := ci.Call.StaticCallee(); hh != nil && d < 2 && r.P.singleUse(hh) && callsIn(hh, c, d+1) {
						return true
					}
				}
			}
		}
		return false
	}
	find := func(c string) []ssa.CallInstruction {
		var out []ssa.CallInstruction
		for _, b := range fn.Blocks {
			for _, in := range b.Instrs {
				if ci, ok := in.(*ssa.Call); ok {
					if matches(calleeName(ci.Common()), c) {
						out = append(out, ci)
					} else if h := ci.Call.StaticCallee(); h != nil && r.P.singleUse(h) && callsIn(h, c, 0) {
						out = append(out, ci) // the step happens inside a single-use helper called here
					}
				}
			}
		}
		return out
	}
	before := func(a, b ssa.Instruction) bool {
		if a.Block() == b.Block() {
			for _, in := range a.Block().Instrs {
				if in == a {
					return true
				}
				if in == b {
					return false
				}
			}
		}
		return a.Block().Dominates(b.Block())
	}
	ok := true
	detail := strings.Join(callees, " -> ")
	var prev []ssa.CallInstruction
	for i, c := range callees {
		cur := find(c)
		if len(cur) == 0 {
			ok = false
			detail = "missing call to " + c
			break
		}
		if i > 0 {
			for _, x := range cur {
				dom := false
				for _, p := range prev {
					if before(p, x) {
						dom = true
					}
				}
				if !dom && i == len(callees)-1 || !dom && len(cur) == 1 {
					ok = false
					detail = c + " is not preceded by " + callees[i-1] + " on every path"
				}
			}
		}
		prev = cur
	}
	r.Check(rule, fnRef+": "+name, r.P.Pos(fn.Pos()), ok, detail)
}

// globCapture matches like glob and returns the text matched by each '*' (nil if no match).
func globCapture(pat, s string) []string {
	parts := strings.Split(pat, "*")
	if len(parts) == 1 {
		if pat == s {
			return []string{}
		}
		return nil
	}
	if !strings.HasPrefix(s, parts[0]) {
		return nil
	}
	s = s[len(parts[0]):]
	last := parts[len(parts)-1]
	var caps []string
	for _, m := range parts[1 : len(parts)-1] {
		i := strings.Index(s, m)
		if i < 0 {
			return nil
		}
		caps = append(caps, s[:i])
		s = s[i+len(m):]
	}
	if !strings.HasSuffix(s, last) {
		return nil
	}
	return append(caps, s[:len(s)-len(last)])
}

// fieldStores returns, for stores into fields of a struct built locally in fn
// ("{...}.Field := value"), the value term per field name.  A field stored twice with
// different values maps to "<conflict>".
func (r *Run) fieldStores(fn *ssa.Function) map[string]string {
	out := map[string]string{}
	// stores of single-use helpers are included, rendered in fn's terms (a literal built by an extracted helper)
	for _, s := range r.scopedStores(fn) {
		i := strings.Index(s.S, " := ")
		if i < 0 {
			continue
		}
		lhs, rhs := s.S[:i], s.S[i+4:]
		if !strings.HasPrefix(lhs, "{") && !strings.HasPrefix(lhs, "local:complit.") {
			continue
		}
		j := strings.LastIndex(lhs, ".")
		if j < 0 || strings.ContainsAny(lhs[j+1:], "}])") {
			continue
		}
		f := lhs[j+1:]
		if old, ok := out[f]; ok && old != rhs {
			rhs = "<conflict>"
		}
		out[f] = rhs
	}
	return out
}

// fieldStoreValues: SSA value stored per field name into structs allocated in fn
// (composite literals); nil value marks conflicting stores.
func fieldStoreValues(fn *ssa.Function) map[string]ssa.Value {
	out := map[string]ssa.Value{}
	for _, b := range fn.Blocks {
		for _, in := range b.Instrs {
			st, ok := in.(*ssa.Store)
			if !ok {
				continue
			}
			fa, ok := st.Addr.(*ssa.FieldAddr)
			if !ok {
				continue
			}
			switch fa.X.(type) {
			case *ssa.Alloc, *ssa.IndexAddr:
			default:
				continue
			}
			stt := derefStruct(fa.X.Type())
			if stt == nil {
				continue
			}
			name := stt.Field(fa.Field).Name()
			if old, ok := out[name]; ok && old != st.Val {
				out[name] = nil
				continue
			}
			out[name] = st.Val
		}
	}
	return out
}

// callHasArg: v is a call one of whose arguments is exactly the SSA value a.
func callHasArg(v, a ssa.Value) bool {
	c, ok := v.(*ssa.Call)
	if !ok || a == nil {
		return false
	}
	for _, x := range c.Call.Args {
		if x == a {
			return true
		}
	}
	return false
}

// RequireBetween: after a call to `first` succeeded, no path reaches a call to `before`
// without passing a call to `then` (ordering inside a loop: work done on what `first`
// produced must happen before the next `before`).
func (r *Run) RequireBetween(rule, fnRef, first, then, before, name string) {
	fn := r.fn(rule, fnRef)
	if fn == nil {
		return
	}
	ff := r.P.Facts(fn)
	firsts, thens, befores := r.CallSites(fn, first), r.CallSites(fn, then), r.CallSites(fn, before)
	if len(firsts) == 0 || len(thens) == 0 || len(befores) == 0 {
		r.Fail(rule, fnRef+": "+name, r.P.Pos(fn.Pos()), fmt.Sprintf("anchor-unresolved: %d/%d/%d calls to %s/%s/%s", len(firsts), len(thens), len(befores), first, then, before))
		return
	}
	isThen, isBefore := map[*ssa.BasicBlock]bool{}, map[*ssa.BasicBlock]bool{}
	for _, c := range thens {
		isThen[c.Block()] = true
	}
	for _, c := range befores {
		isBefore[c.Block()] = true
	}
	for _, cs := range firsts {
		B := cs.Block()
		starts := []*ssa.BasicBlock{}
		if iff := ifOf(B); iff != nil {
			if v, ok := cs.(ssa.Value); ok {
				okAtom := "ok(" + ff.callTerm(v) + ")"
				for i, s := range B.Succs {
					for _, a := range ff.condAtomsX(iff.Cond, i == 0) {
						if a == okAtom {
							starts = append(starts, s)
						}
					}
				}
			}
		}
		if len(starts) == 0 {
			starts = append(starts, B.Succs...)
		}
		seen := map[*ssa.BasicBlock]bool{}
		stack := append([]*ssa.BasicBlock{}, starts...)
		var bad *ssa.BasicBlock
		for len(stack) > 0 && bad == nil {
			n := stack[len(stack)-1]
			stack = stack[:len(stack)-1]
			if seen[n] || isThen[n] {
				continue
			}
			seen[n] = true
			if isBefore[n] {
				bad = n
				break
			}
			stack = append(stack, n.Succs...)
		}
		detail := ""
		if bad != nil {
			detail = "a path from the successful " + first + " reaches " + before + " at " + r.P.Pos(ff.condPos(bad)) + " without " + then
		}
		r.Check(rule, fnRef+": "+name, r.P.Pos(cs.Pos()), bad == nil, detail)
	}
}
